// Package sym is the symbolic executor ("symgo"): SMT terms, values, the SSA
// interpreter, library contracts, exploration, replay and reporting.
package sym

import (
	"net/url"
	"fmt"
	"sort"
	"strconv"
	"strings"
)

// Sort of an SMT term.
type Sort uint8

const (
	SBool Sort = iota
	SInt
	SStr
)

func (s Sort) String() string {
	switch s {
	case SBool:
		return "Bool"
	case SInt:
		return "Int"
	}
	return "String"
}

// Term is an immutable SMT term. Constants are folded at construction, so a
// concrete execution never reaches the solver.
type Term struct {
	Op   string // const sym not and or ite = ++ len < <= + - prefixof suffixof contains replace_all replace to_int from_int in_re uf at substr indexof
	Sort Sort
	Args []*Term
	B    bool
	I    int64
	S    string // const string payload; symbol name; uf name; regex (SMT text) for in_re
	key  string
}

var (
	TrueT  = &Term{Op: "const", Sort: SBool, B: true}
	FalseT = &Term{Op: "const", Sort: SBool, B: false}
)

func BoolC(b bool) *Term {
	if b {
		return TrueT
	}
	return FalseT
}
func IntC(i int64) *Term  { return &Term{Op: "const", Sort: SInt, I: i} }
func StrC(s string) *Term { return &Term{Op: "const", Sort: SStr, S: s} }
func Sym(name string, s Sort) *Term {
	return &Term{Op: "sym", Sort: s, S: name}
}

func (t *Term) IsConst() bool { return t.Op == "const" }
func (t *Term) IsTrue() bool  { return t.Op == "const" && t.Sort == SBool && t.B }
func (t *Term) IsFalse() bool { return t.Op == "const" && t.Sort == SBool && !t.B }

// Key is a canonical rendering used for structural equality and caching.
func (t *Term) Key() string {
	if t.key != "" {
		return t.key
	}
	var sb strings.Builder
	switch t.Op {
	case "const":
		switch t.Sort {
		case SBool:
			if t.B {
				sb.WriteString("true")
			} else {
				sb.WriteString("false")
			}
		case SInt:
			sb.WriteString(strconv.FormatInt(t.I, 10))
		default:
			sb.WriteString(strconv.Quote(t.S))
		}
	case "sym":
		sb.WriteString("$" + t.S)
	default:
		sb.WriteString("(" + t.Op)
		if t.S != "" {
			sb.WriteString(":" + t.S)
		}
		for _, a := range t.Args {
			sb.WriteByte(' ')
			sb.WriteString(a.Key())
		}
		sb.WriteByte(')')
	}
	t.key = sb.String()
	return t.key
}

func (t *Term) String() string { return t.Key() }

func SameTerm(a, b *Term) bool { return a == b || a.Key() == b.Key() }

// ---- booleans

func Not(a *Term) *Term {
	if a.IsConst() {
		return BoolC(!a.B)
	}
	if a.Op == "not" {
		return a.Args[0]
	}
	return &Term{Op: "not", Sort: SBool, Args: []*Term{a}}
}

func And(as ...*Term) *Term {
	var out []*Term
	seen := map[string]bool{}
	for _, a := range as {
		if a.IsTrue() {
			continue
		}
		if a.IsFalse() {
			return FalseT
		}
		if a.Op == "and" {
			for _, b := range a.Args {
				if !seen[b.Key()] {
					seen[b.Key()] = true
					out = append(out, b)
				}
			}
			continue
		}
		if !seen[a.Key()] {
			seen[a.Key()] = true
			out = append(out, a)
		}
	}
	for _, a := range out {
		if seen[Not(a).Key()] {
			return FalseT
		}
	}
	switch len(out) {
	case 0:
		return TrueT
	case 1:
		return out[0]
	}
	return &Term{Op: "and", Sort: SBool, Args: out}
}

func Or(as ...*Term) *Term {
	var out []*Term
	seen := map[string]bool{}
	for _, a := range as {
		if a.IsFalse() {
			continue
		}
		if a.IsTrue() {
			return TrueT
		}
		if a.Op == "or" {
			for _, b := range a.Args {
				if !seen[b.Key()] {
					seen[b.Key()] = true
					out = append(out, b)
				}
			}
			continue
		}
		if !seen[a.Key()] {
			seen[a.Key()] = true
			out = append(out, a)
		}
	}
	for _, a := range out {
		if seen[Not(a).Key()] {
			return TrueT
		}
	}
	switch len(out) {
	case 0:
		return FalseT
	case 1:
		return out[0]
	}
	return &Term{Op: "or", Sort: SBool, Args: out}
}

func Implies(a, b *Term) *Term { return Or(Not(a), b) }

func Ite(c, a, b *Term) *Term {
	if c.IsTrue() {
		return a
	}
	if c.IsFalse() {
		return b
	}
	if SameTerm(a, b) {
		return a
	}
	if a.Sort == SBool {
		if a.IsTrue() && b.IsFalse() {
			return c
		}
		if a.IsFalse() && b.IsTrue() {
			return Not(c)
		}
		return Or(And(c, a), And(Not(c), b))
	}
	return &Term{Op: "ite", Sort: a.Sort, Args: []*Term{c, a, b}}
}

// ---- strings

func flatten(t *Term) []*Term {
	if t.Op == "++" {
		return t.Args
	}
	if t.IsConst() && t.S == "" {
		return nil
	}
	return []*Term{t}
}

func Concat(as ...*Term) *Term {
	var out []*Term
	for _, a := range as {
		for _, p := range flatten(a) {
			if p.IsConst() {
				if p.S == "" {
					continue
				}
				if n := len(out); n > 0 && out[n-1].IsConst() {
					out[n-1] = StrC(out[n-1].S + p.S)
					continue
				}
			}
			out = append(out, p)
		}
	}
	switch len(out) {
	case 0:
		return StrC("")
	case 1:
		return out[0]
	}
	return &Term{Op: "++", Sort: SStr, Args: out}
}

// injective uninterpreted functions: f(x)=f(y) <=> x=y
var injectiveUF = map[string]bool{"b64": true, "qe": true, "qe1": true, "qe2": true, "deflate": true}

// escapeUF: percent-encoders for query strings. Their results contain neither
// '&' nor '=' (nor '?', '#', blank). qe is Go's url.QueryEscape; qe1 writes the
// hex digits in lower case; qe2 writes a blank as %20 instead of '+'.
var escapeUF = map[string]bool{"qe": true, "qe1": true, "qe2": true}

// EscapeStyle is the concrete function behind qe / qe1 / qe2.
func EscapeStyle(style int, s string) string {
	e := url.QueryEscape(s)
	switch style {
	case 1:
		b := []byte(e)
		for i := 0; i+2 < len(b); i++ {
			if b[i] == '%' {
				for j := i + 1; j <= i+2; j++ {
					if b[j] >= 'A' && b[j] <= 'F' {
						b[j] += 'a' - 'A'
					}
				}
				i += 2
			}
		}
		return string(b)
	case 2:
		return strings.ReplaceAll(e, "+", "%20")
	}
	return e
}

func escapeStyleOf(uf string) int {
	switch uf {
	case "qe1":
		return 1
	case "qe2":
		return 2
	}
	return 0
}

// minimal length known for a piece (used to refute equalities with "")
func minLen(t *Term) int {
	switch {
	case t.IsConst():
		return len(t.S)
	case t.Op == "++":
		n := 0
		for _, a := range t.Args {
			n += minLen(a)
		}
		return n
	}
	return 0
}

// ampSplit splits pieces at the first literal '&'. ok is false when a piece
// before it is not known to be '&'-free (only escaped values and literals
// are). tail == nil: no literal '&' at all (the whole string is '&'-free).
// The tail does not include the '&' itself.
func ampSplit(ps []*Term) (head, tail []*Term, ok bool) {
	for i, p := range ps {
		switch {
		case p.IsConst():
			if j := strings.IndexByte(p.S, '&'); j >= 0 {
				head = append(append([]*Term{}, ps[:i]...), StrC(p.S[:j]))
				tail = append([]*Term{StrC(p.S[j+1:])}, ps[i+1:]...)
				return head, tail, true
			}
		case p.Op == "uf" && escapeUF[p.S]:
		default:
			return nil, nil, false
		}
	}
	return ps, nil, true
}

func Eq(a, b *Term) *Term {
	if SameTerm(a, b) {
		return TrueT
	}
	if a.IsConst() && b.IsConst() {
		switch a.Sort {
		case SBool:
			return BoolC(a.B == b.B)
		case SInt:
			return BoolC(a.I == b.I)
		default:
			return BoolC(a.S == b.S)
		}
	}
	switch a.Sort {
	case SBool:
		if a.IsConst() {
			a, b = b, a
		}
		if b.IsTrue() {
			return a
		}
		if b.IsFalse() {
			return Not(a)
		}
	case SStr:
		pa, pb := flatten(a), flatten(b)
		// strip common prefix pieces
		for len(pa) > 0 && len(pb) > 0 {
			x, y := pa[0], pb[0]
			if SameTerm(x, y) {
				pa, pb = pa[1:], pb[1:]
				continue
			}
			if x.IsConst() && y.IsConst() {
				n := len(x.S)
				if len(y.S) < n {
					n = len(y.S)
				}
				if x.S[:n] != y.S[:n] {
					return FalseT
				}
				// n < max len (else SameTerm)
				pa = append([]*Term{StrC(x.S[n:])}, pa[1:]...)
				pb = append([]*Term{StrC(y.S[n:])}, pb[1:]...)
				if pa[0].S == "" {
					pa = pa[1:]
				}
				if pb[0].S == "" {
					pb = pb[1:]
				}
				continue
			}
			break
		}
		for len(pa) > 0 && len(pb) > 0 {
			x, y := pa[len(pa)-1], pb[len(pb)-1]
			if SameTerm(x, y) {
				pa, pb = pa[:len(pa)-1], pb[:len(pb)-1]
				continue
			}
			if x.IsConst() && y.IsConst() {
				n := len(x.S)
				if len(y.S) < n {
					n = len(y.S)
				}
				if x.S[len(x.S)-n:] != y.S[len(y.S)-n:] {
					return FalseT
				}
				pa = append(append([]*Term{}, pa[:len(pa)-1]...), StrC(x.S[:len(x.S)-n]))
				pb = append(append([]*Term{}, pb[:len(pb)-1]...), StrC(y.S[:len(y.S)-n]))
				if pa[len(pa)-1].S == "" {
					pa = pa[:len(pa)-1]
				}
				if pb[len(pb)-1].S == "" {
					pb = pb[:len(pb)-1]
				}
				continue
			}
			break
		}
		if len(pa) == 0 && len(pb) == 0 {
			return TrueT
		}
		if len(pa) == 0 || len(pb) == 0 {
			rest := pa
			if len(pa) == 0 {
				rest = pb
			}
			for _, p := range rest {
				if minLen(p) > 0 {
					return FalseT
				}
			}
		}
		// query-string split: an escaped value (uf:qe) contains no '&' (axiom of qe), so two
		// concatenations of '&'-free pieces and literal text agree iff they agree up to the
		// first literal '&' and after it
		if ha, ta, oka := ampSplit(pa); oka {
			if hb, tb, okb := ampSplit(pb); okb {
				if (ta == nil) != (tb == nil) {
					return FalseT
				}
				if ta != nil {
					return And(Eq(Concat(ha...), Concat(hb...)), Eq(Concat(ta...), Concat(tb...)))
				}
			}
		}
		a, b = Concat(pa...), Concat(pb...)
		if a.Op == "uf" && b.Op == "uf" && a.S == b.S && injectiveUF[a.S] && len(a.Args) == 1 {
			return Eq(a.Args[0], b.Args[0])
		}
		// qe is Go's url.QueryEscape, a concrete injective function: qe(t) = k for a literal k
		// holds iff k is the escape of some c and t = c
		for i := 0; i < 2; i++ {
			u, k := a, b
			if i == 1 {
				u, k = b, a
			}
			if u.Op == "uf" && escapeUF[u.S] && len(u.Args) == 1 && k.IsConst() {
				c, err := url.QueryUnescape(k.S)
				if err != nil || EscapeStyle(escapeStyleOf(u.S), c) != k.S {
					return FalseT
				}
				return Eq(u.Args[0], StrC(c))
			}
		}
		if a.Op == "ite" && b.IsConst() {
			return Ite(a.Args[0], Eq(a.Args[1], b), Eq(a.Args[2], b))
		}
		if b.Op == "ite" && a.IsConst() {
			return Ite(b.Args[0], Eq(b.Args[1], a), Eq(b.Args[2], a))
		}
	case SInt:
		if a.Op == "ite" && b.IsConst() {
			return Ite(a.Args[0], Eq(a.Args[1], b), Eq(a.Args[2], b))
		}
		if b.Op == "ite" && a.IsConst() {
			return Ite(b.Args[0], Eq(b.Args[1], a), Eq(b.Args[2], a))
		}
	}
	if a.Key() > b.Key() {
		a, b = b, a
	}
	return &Term{Op: "=", Sort: SBool, Args: []*Term{a, b}}
}

func Len(a *Term) *Term {
	if a.IsConst() {
		return IntC(int64(len(a.S)))
	}
	if a.Op == "++" {
		var sum *Term = IntC(0)
		for _, p := range a.Args {
			sum = Add(sum, Len(p))
		}
		return sum
	}
	if a.Op == "ite" {
		return Ite(a.Args[0], Len(a.Args[1]), Len(a.Args[2]))
	}
	if a.Op == "uf" && a.Sort == SStr && lenAbstract[a.S] {
		// the length of an encoded / compressed string is an integer of its own (ground
		// axioms in solver.go relate it to the length of the argument): string solvers
		// do not construct witnesses of many kilobytes for "len(url) > 8192". Weaker
		// than the string's real length, hence sound for unsat; a model that relies on
		// it is confirmed or discarded by the native replay.
		return UFSort("len."+a.S, SInt, a.Args...)
	}
	return &Term{Op: "len", Sort: SInt, Args: []*Term{a}}
}

var lenAbstract = map[string]bool{"b64": true, "b64url": true, "b64raw": true, "b64rawurl": true, "qe": true, "qe1": true, "qe2": true, "deflate": true}

func PrefixOf(p, s *Term) *Term {
	if p.IsConst() && s.IsConst() {
		return BoolC(strings.HasPrefix(s.S, p.S))
	}
	if p.IsConst() && p.S == "" {
		return TrueT
	}
	pp, ps := flatten(p), flatten(s)
	if len(ps) > 0 && ps[0].Op == "from_int" && len(pp) > 0 && pp[0].IsConst() && (pp[0].S[0] < '0' || pp[0].S[0] > '9') {
		// from_int yields decimal digits only (or "" for negatives)
		return FalseT
	}
	i := 0
	for i < len(pp) && i < len(ps) && SameTerm(pp[i], ps[i]) {
		i++
	}
	if i == len(pp) {
		return TrueT
	}
	// constant-vs-constant head decides many cases
	if i < len(ps) && pp[i].IsConst() && ps[i].IsConst() {
		x, y := pp[i].S, ps[i].S
		n := len(x)
		if len(y) < n {
			n = len(y)
		}
		if x[:n] != y[:n] {
			return FalseT
		}
		if len(x) <= len(y) && i == len(pp)-1 {
			return TrueT
		}
	}
	return &Term{Op: "prefixof", Sort: SBool, Args: []*Term{p, s}}
}

func SuffixOf(p, s *Term) *Term {
	if p.IsConst() && s.IsConst() {
		return BoolC(strings.HasSuffix(s.S, p.S))
	}
	if p.IsConst() && p.S == "" {
		return TrueT
	}
	pp, ps := flatten(p), flatten(s)
	i := 0
	for i < len(pp) && i < len(ps) && SameTerm(pp[len(pp)-1-i], ps[len(ps)-1-i]) {
		i++
	}
	if i == len(pp) {
		return TrueT
	}
	if i < len(ps) && pp[len(pp)-1-i].IsConst() && ps[len(ps)-1-i].IsConst() {
		x, y := pp[len(pp)-1-i].S, ps[len(ps)-1-i].S
		n := len(x)
		if len(y) < n {
			n = len(y)
		}
		if x[len(x)-n:] != y[len(y)-n:] {
			return FalseT
		}
		if len(x) <= len(y) && i == len(pp)-1 {
			return TrueT
		}
	}
	return &Term{Op: "suffixof", Sort: SBool, Args: []*Term{p, s}}
}

func Contains(s, sub *Term) *Term {
	if s.IsConst() && sub.IsConst() {
		return BoolC(strings.Contains(s.S, sub.S))
	}
	if sub.IsConst() && sub.S == "" {
		return TrueT
	}
	for _, p := range flatten(s) {
		if SameTerm(p, sub) {
			return TrueT
		}
		if p.IsConst() && sub.IsConst() && strings.Contains(p.S, sub.S) {
			return TrueT
		}
	}
	return &Term{Op: "contains", Sort: SBool, Args: []*Term{s, sub}}
}

func ReplaceAll(s, old, new *Term) *Term {
	if s.IsConst() && old.IsConst() && new.IsConst() {
		return StrC(strings.ReplaceAll(s.S, old.S, new.S))
	}
	return &Term{Op: "replace_all", Sort: SStr, Args: []*Term{s, old, new}}
}

// Substr(s, off, n) with SMT semantics (clamped).
func Substr(s, off, n *Term) *Term {
	if s.IsConst() && off.IsConst() && n.IsConst() {
		o, l := off.I, n.I
		if o < 0 || o >= int64(len(s.S)) || l <= 0 {
			return StrC("")
		}
		if o+l > int64(len(s.S)) {
			l = int64(len(s.S)) - o
		}
		return StrC(s.S[o : o+l])
	}
	return &Term{Op: "substr", Sort: SStr, Args: []*Term{s, off, n}}
}

// TrimPrefix(s, p) = ite(prefixof(p,s), substr(s,len p, len s - len p), s)
func TrimPrefix(s, p *Term) *Term {
	c := PrefixOf(p, s)
	if c.IsFalse() {
		return s
	}
	if c.IsTrue() {
		ps, pp := flatten(s), flatten(p)
		i := 0
		for i < len(pp) && i < len(ps) && SameTerm(pp[i], ps[i]) {
			i++
		}
		if i == len(pp) {
			return Concat(ps[i:]...)
		}
		if s.IsConst() && p.IsConst() {
			return StrC(strings.TrimPrefix(s.S, p.S))
		}
		if i == len(pp)-1 && pp[i].IsConst() && ps[i].IsConst() && strings.HasPrefix(ps[i].S, pp[i].S) {
			rest := append([]*Term{StrC(ps[i].S[len(pp[i].S):])}, ps[i+1:]...)
			return Concat(rest...)
		}
	}
	return Ite(c, Substr(s, Len(p), Sub(Len(s), Len(p))), s)
}

func TrimSuffix(s, p *Term) *Term {
	c := SuffixOf(p, s)
	if c.IsFalse() {
		return s
	}
	if c.IsTrue() {
		ps, pp := flatten(s), flatten(p)
		i := 0
		for i < len(pp) && i < len(ps) && SameTerm(pp[len(pp)-1-i], ps[len(ps)-1-i]) {
			i++
		}
		if i == len(pp) {
			return Concat(ps[:len(ps)-i]...)
		}
		if s.IsConst() && p.IsConst() {
			return StrC(strings.TrimSuffix(s.S, p.S))
		}
	}
	return Ite(c, Substr(s, IntC(0), Sub(Len(s), Len(p))), s)
}

// UF applies an uninterpreted function String^n -> String.
func UF(name string, args ...*Term) *Term {
	return &Term{Op: "uf", Sort: SStr, S: name, Args: args}
}

// UFSort applies an uninterpreted function with a given result sort.
func UFSort(name string, res Sort, args ...*Term) *Term {
	return &Term{Op: "uf", Sort: res, S: name, Args: args}
}

// InRe: membership of s in an SMT-LIB regular expression given as text.
func InRe(s *Term, re string) *Term {
	return &Term{Op: "in_re", Sort: SBool, S: re, Args: []*Term{s}}
}

func ToInt(s *Term) *Term {
	if s.IsConst() {
		if s.S == "" {
			return IntC(-1)
		}
		for _, c := range s.S {
			if c < '0' || c > '9' {
				return IntC(-1)
			}
		}
		if v, err := strconv.ParseInt(s.S, 10, 64); err == nil {
			return IntC(v)
		}
	}
	if s.Op == "from_int" {
		return Ite(Le(IntC(0), s.Args[0]), s.Args[0], IntC(-1))
	}
	return &Term{Op: "to_int", Sort: SInt, Args: []*Term{s}}
}

func FromInt(i *Term) *Term {
	if i.IsConst() {
		if i.I < 0 {
			return StrC("")
		}
		return StrC(strconv.FormatInt(i.I, 10))
	}
	return &Term{Op: "from_int", Sort: SStr, Args: []*Term{i}}
}

// ---- integers

func Add(a, b *Term) *Term {
	if a.IsConst() && b.IsConst() {
		return IntC(a.I + b.I)
	}
	if a.IsConst() && a.I == 0 {
		return b
	}
	if b.IsConst() && b.I == 0 {
		return a
	}
	return &Term{Op: "+", Sort: SInt, Args: []*Term{a, b}}
}

func Sub(a, b *Term) *Term {
	if a.IsConst() && b.IsConst() {
		return IntC(a.I - b.I)
	}
	if b.IsConst() && b.I == 0 {
		return a
	}
	if SameTerm(a, b) {
		return IntC(0)
	}
	return &Term{Op: "-", Sort: SInt, Args: []*Term{a, b}}
}

func Lt(a, b *Term) *Term {
	if a.IsConst() && b.IsConst() {
		return BoolC(a.I < b.I)
	}
	if SameTerm(a, b) {
		return FalseT
	}
	if a.Op == "len" && b.IsConst() && b.I <= 0 {
		return FalseT
	}
	return &Term{Op: "<", Sort: SBool, Args: []*Term{a, b}}
}

func Le(a, b *Term) *Term {
	if a.IsConst() && b.IsConst() {
		return BoolC(a.I <= b.I)
	}
	if SameTerm(a, b) {
		return TrueT
	}
	if b.Op == "len" && a.IsConst() && a.I <= 0 {
		return TrueT
	}
	return &Term{Op: "<=", Sort: SBool, Args: []*Term{a, b}}
}

// ---- SMT-LIB rendering

func smtString(s string) string {
	var sb strings.Builder
	sb.WriteByte('"')
	for i := 0; i < len(s); i++ {
		c := s[i]
		if c >= 0x20 && c < 0x7f && c != '"' && c != '\\' {
			sb.WriteByte(c)
		} else {
			fmt.Fprintf(&sb, "\\u{%x}", c)
		}
	}
	sb.WriteByte('"')
	return sb.String()
}

func smtSym(name string) string { return "|" + name + "|" }

// SMT renders the term; symbols and ufs are collected into decl.
func (t *Term) SMT(decl *Decls) string {
	switch t.Op {
	case "const":
		switch t.Sort {
		case SBool:
			if t.B {
				return "true"
			}
			return "false"
		case SInt:
			if t.I < 0 {
				return "(- " + strconv.FormatUint(uint64(-t.I), 10) + ")"
			}
			return strconv.FormatInt(t.I, 10)
		default:
			return smtString(t.S)
		}
	case "sym":
		decl.sym(t.S, t.Sort)
		return smtSym(t.S)
	}
	args := make([]string, len(t.Args))
	for i, a := range t.Args {
		args[i] = a.SMT(decl)
	}
	j := strings.Join(args, " ")
	switch t.Op {
	case "not", "and", "or", "ite", "=", "<", "<=", "+", "-":
		return "(" + t.Op + " " + j + ")"
	case "++":
		return "(str.++ " + j + ")"
	case "len":
		return "(str.len " + j + ")"
	case "prefixof":
		return "(str.prefixof " + j + ")"
	case "suffixof":
		return "(str.suffixof " + j + ")"
	case "contains":
		return "(str.contains " + j + ")"
	case "replace_all":
		return "(str.replace_all " + j + ")"
	case "replace":
		return "(str.replace " + j + ")"
	case "substr":
		return "(str.substr " + j + ")"
	case "at":
		return "(str.at " + j + ")"
	case "indexof":
		return "(str.indexof " + j + ")"
	case "to_int":
		return "(str.to_int " + j + ")"
	case "from_int":
		return "(str.from_int " + j + ")"
	case "in_re":
		return "(str.in_re " + j + " " + t.S + ")"
	case "uf":
		decl.uf(t)
		if len(args) == 0 {
			return smtSym("uf." + t.S)
		}
		return "(" + smtSym("uf."+t.S) + " " + j + ")"
	}
	panic("SMT: unknown op " + t.Op)
}

// Decls collects declarations and the uf applications (for ground axioms).
type Decls struct {
	syms   map[string]Sort
	ufs    map[string]string // name -> declaration
	ufApps map[string]*Term
}

func NewDecls() *Decls {
	return &Decls{syms: map[string]Sort{}, ufs: map[string]string{}, ufApps: map[string]*Term{}}
}

func (d *Decls) sym(n string, s Sort) { d.syms[n] = s }
func (d *Decls) uf(t *Term) {
	if _, ok := d.ufs[t.S]; !ok {
		var as []string
		for _, a := range t.Args {
			as = append(as, a.Sort.String())
		}
		d.ufs[t.S] = "(declare-fun " + smtSym("uf."+t.S) + " (" + strings.Join(as, " ") + ") " + t.Sort.String() + ")"
	}
	d.ufApps[t.Key()] = t
}

func (d *Decls) Text() string {
	var names []string
	for n := range d.syms {
		names = append(names, n)
	}
	sort.Strings(names)
	var sb strings.Builder
	for _, n := range names {
		sb.WriteString("(declare-const " + smtSym(n) + " " + d.syms[n].String() + ")\n")
	}
	var ufs []string
	for n := range d.ufs {
		ufs = append(ufs, n)
	}
	sort.Strings(ufs)
	for _, n := range ufs {
		sb.WriteString(d.ufs[n] + "\n")
	}
	return sb.String()
}

func (d *Decls) SymNames() []string {
	var names []string
	for n := range d.syms {
		names = append(names, n)
	}
	sort.Strings(names)
	return names
}
