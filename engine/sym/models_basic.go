package sym

import (
	"go/types"
	"regexp"
	"strings"
)

var errType = types.Universe.Lookup("error").Type()

func (x *Exec) newError(msg *Term, wrapped Value) *IfaceV {
	x.errSeq++
	return &IfaceV{T: errType, V: &ErrObj{Msg: msg, Wrapped: wrapped, ID: x.errSeq}}
}

func (x *Exec) errorC(msg string) *IfaceV { return x.newError(StrC(msg), nil) }

// symbolic error from a library: message is a fresh string
func (x *Exec) libError(what string) *IfaceV {
	return x.newError(x.fresh("errmsg."+what, SStr), nil)
}

func (x *Exec) intToStr(i *Term) *Term {
	if i.IsConst() {
		return FromInt(i) // negative constants are handled by the caller
	}
	// fork on the sign so that the result is a plain from_int term
	if x.Branch(Lt(i, IntC(0))) {
		return Concat(StrC("-"), FromInt(Sub(IntC(0), i)))
	}
	return FromInt(i)
}

func (x *Exec) fmtValue(v Value, verb byte) *Term {
	v = x.force(v)
	switch a := v.(type) {
	case *IfaceV:
		if a.T == nil {
			if verb == 'w' {
				return StrC("%!w(<nil>)")
			}
			if verb == 's' {
				return StrC("%!s(<nil>)")
			}
			return StrC("<nil>")
		}
		if e, ok := a.V.(*ErrObj); ok {
			return e.Msg
		}
		return x.fmtValue(a.V, verb)
	case *Term:
		switch a.Sort {
		case SStr:
			return a
		case SInt:
			if a.IsConst() && a.I < 0 {
				return StrC("-" + FromInt(IntC(-a.I)).S)
			}
			return x.intToStr(a)
		default:
			return Ite(a, StrC("true"), StrC("false"))
		}
	case *BytesV:
		return a.T
	case *Native:
		if a.Kind == "uuid" {
			return a.Data.(*Term)
		}
	}
	return x.fresh("fmt", SStr)
}

// format expands a constant format string.
func (x *Exec) format(f *Term, args []Value) (*Term, Value) {
	if !f.IsConst() {
		if len(args) == 0 {
			// a data-dependent format string: the text itself unless it contains a '%'
			// (then fmt writes %!verb(MISSING) noise in its place)
			return UF("fmtverbs", f), nil
		}
		return x.fresh("fmt", SStr), nil
	}
	s := f.S
	var parts []*Term
	var wrapped Value
	ai := 0
	for i := 0; i < len(s); i++ {
		if s[i] != '%' {
			j := strings.IndexByte(s[i:], '%')
			if j < 0 {
				parts = append(parts, StrC(s[i:]))
				break
			}
			parts = append(parts, StrC(s[i:i+j]))
			i += j - 1
			continue
		}
		if i+1 >= len(s) {
			parts = append(parts, StrC("%!(NOVERB)"))
			break
		}
		verb := s[i+1]
		i++
		if verb == '%' {
			parts = append(parts, StrC("%"))
			continue
		}
		if ai >= len(args) {
			parts = append(parts, StrC("%!"+string(verb)+"(MISSING)"))
			continue
		}
		arg := args[ai]
		ai++
		switch verb {
		case 's', 'v', 'd', 'w':
			if verb == 'w' {
				if iv, ok := x.force(arg).(*IfaceV); ok && iv.T != nil {
					wrapped = iv
				}
			}
			parts = append(parts, x.fmtValue(arg, verb))
		default:
			parts = append(parts, x.fresh("fmt", SStr))
		}
	}
	return Concat(parts...), wrapped
}

func skip(x *Exec, fr *frame, a []Value) Value { return nil }

func registerModels(e *Engine) {
	m := e.Models
	// logging: no effect
	for _, n := range []string{"Error", "Errorf", "Info", "Infof", "Warn", "Warnf", "Debug", "Debugf", "Log", "OnError", "WithError", "WithFields"} {
		m["github.com/zitadel/logging."+n] = skip
	}
	m["log.Printf"] = skip
	m["log.Println"] = skip
	m["log.Print"] = skip

	m["errors.New"] = func(x *Exec, fr *frame, a []Value) Value { return x.newError(x.term(a[0]), nil) }
	m["fmt.Errorf"] = func(x *Exec, fr *frame, a []Value) Value {
		msg, wrapped := x.format(x.term(a[0]), x.sliceElems(a[1]))
		return x.newError(msg, wrapped)
	}
	m["fmt.Sprintf"] = func(x *Exec, fr *frame, a []Value) Value {
		msg, _ := x.format(x.term(a[0]), x.sliceElems(a[1]))
		return msg
	}
	m["fmt.Sprint"] = func(x *Exec, fr *frame, a []Value) Value {
		var parts []*Term
		for _, v := range x.sliceElems(a[0]) {
			parts = append(parts, x.fmtValue(v, 'v'))
		}
		return Concat(parts...)
	}

	// strings: exact SMT operations
	m["strings.HasPrefix"] = func(x *Exec, fr *frame, a []Value) Value { return PrefixOf(x.term(a[1]), x.term(a[0])) }
	m["strings.HasSuffix"] = func(x *Exec, fr *frame, a []Value) Value { return SuffixOf(x.term(a[1]), x.term(a[0])) }
	m["strings.TrimPrefix"] = func(x *Exec, fr *frame, a []Value) Value { return TrimPrefix(x.term(a[0]), x.term(a[1])) }
	m["strings.TrimSuffix"] = func(x *Exec, fr *frame, a []Value) Value { return TrimSuffix(x.term(a[0]), x.term(a[1])) }
	m["strings.Contains"] = func(x *Exec, fr *frame, a []Value) Value { return Contains(x.term(a[0]), x.term(a[1])) }
	m["strings.ReplaceAll"] = func(x *Exec, fr *frame, a []Value) Value {
		return ReplaceAll(x.term(a[0]), x.term(a[1]), x.term(a[2]))
	}
	m["strings.Join"] = func(x *Exec, fr *frame, a []Value) Value {
		var parts []*Term
		for i, v := range x.sliceElems(a[0]) {
			if i > 0 {
				parts = append(parts, x.term(a[1]))
			}
			parts = append(parts, x.term(v))
		}
		return Concat(parts...)
	}
	m["strings.NewReader"] = func(x *Exec, fr *frame, a []Value) Value {
		return &Native{Kind: "reader", Data: &streamObj{content: x.term(a[0])}}
	}
	m["strings.ToLower"] = func(x *Exec, fr *frame, a []Value) Value {
		t := x.term(a[0])
		if t.IsConst() {
			return StrC(strings.ToLower(t.S))
		}
		return UF("tolower", t)
	}
	m["strconv.Itoa"] = func(x *Exec, fr *frame, a []Value) Value { return x.fmtValue(a[0], 'd') }
	// strconv.Atoi: exact on syntax, sign and range (SMT integers are unbounded)
	m["strconv.Atoi"] = func(x *Exec, fr *frame, a []Value) Value {
		s := x.term(a[0])
		if !x.Branch(InReOrConst(s, "int")) {
			return TupleV{IntC(0), x.errorC("strconv.Atoi: invalid syntax")}
		}
		neg := PrefixOf(StrC("-"), s)
		plus := PrefixOf(StrC("+"), s)
		digits := Ite(Or(neg, plus), Substr(s, IntC(1), Sub(Len(s), IntC(1))), s)
		mag := ToInt(digits)
		if x.Branch(neg) {
			if x.Branch(Le(mag, IntC(1<<62))) || x.Branch(Le(Sub(mag, IntC(1<<62)), IntC(1<<62))) {
				return TupleV{Sub(IntC(0), mag), NilIface}
			}
			return TupleV{IntC(-1 << 63), x.errorC("strconv.Atoi: value out of range")}
		}
		if x.Branch(Le(mag, IntC(1<<63-1))) {
			return TupleV{mag, NilIface}
		}
		return TupleV{IntC(1<<63 - 1), x.errorC("strconv.Atoi: value out of range")}
	}
	m["strconv.FormatInt"] = func(x *Exec, fr *frame, a []Value) Value { return x.fmtValue(a[0], 'd') }

	m["regexp.MustCompile"] = func(x *Exec, fr *frame, a []Value) Value {
		return &Native{Kind: "regexp", Data: x.constStr(a[0], "regexp pattern")}
	}
	m["(*regexp.Regexp).ReplaceAllString"] = func(x *Exec, fr *frame, a []Value) Value {
		re := a[0].(*Native).Data.(string)
		s, repl := x.term(a[1]), x.term(a[2])
		if s.IsConst() && repl.IsConst() {
			return StrC(regexp.MustCompile(re).ReplaceAllString(s.S, repl.S))
		}
		if re == `\s+` && repl.IsConst() && repl.S == "" {
			return UF("nows", s) // whitespace-stripped text
		}
		panic(abortf("regexp %q on symbolic text", re))
	}
	m["(*regexp.Regexp).MatchString"] = func(x *Exec, fr *frame, a []Value) Value {
		re := a[0].(*Native).Data.(string)
		s := x.term(a[1])
		if s.IsConst() {
			return BoolC(regexp.MustCompile(re).MatchString(s.S))
		}
		if l, ok := goRegexToSMT(re); ok {
			return InRe(s, l)
		}
		panic(abortf("regexp %q on symbolic text", re))
	}
	m["regexp.MatchString"] = func(x *Exec, fr *frame, a []Value) Value {
		re := x.constStr(a[0], "regexp pattern")
		s := x.term(a[1])
		if s.IsConst() {
			ok, err := regexp.MatchString(re, s.S)
			if err != nil {
				return TupleV{FalseT, x.errorC(err.Error())}
			}
			return TupleV{BoolC(ok), NilIface}
		}
		if l, ok := goRegexToSMT(re); ok {
			return TupleV{InRe(s, l), NilIface}
		}
		panic(abortf("regexp %q on symbolic text", re))
	}

	registerHTTPModels(e)
	registerCodecModels(e)
	registerCryptoModels(e)
	registerTimeModels(e)
	registerSyncModels(e)
	registerSortModels(e)
	registerXMLHookModels(e)
	registerStringModels(e)
}

func InReOrConst(s *Term, class string) *Term {
	if s.Op == "from_int" && (class == "int" || class == "index") {
		if class == "index" {
			return And(Le(IntC(0), s.Args[0]), Le(s.Args[0], IntC(99999)))
		}
		return Le(IntC(0), s.Args[0])
	}
	if s.IsConst() {
		return BoolC(matchClassConcrete(class, s.S))
	}
	return InRe(s, regexClasses[class])
}

// sort.Slice / sort.SliceStable / sort.Strings on short slices: an insertion sort
// (stable) that calls the real less function and forks on its symbolic result;
// elements are moved in the backing array, so a sort of shared data is a write to it.
func registerSortModels(e *Engine) {
	m := e.Models
	sortSlice := func(x *Exec, fr *frame, a []Value) Value {
		iv, ok := x.force(a[0]).(*IfaceV)
		if !ok || iv.T == nil {
			panic(&guestPanic{msg: "sort.Slice of a nil interface"})
		}
		s, ok := x.force(iv.V).(*SliceV)
		if !ok {
			panic(abortf("sort.Slice of %T", iv.V))
		}
		if s.Arr == nil || s.Len < 2 {
			return nil
		}
		if s.Len > 6 {
			panic(abortf("sort.Slice of more than 6 elements is not encoded"))
		}
		less, ok := x.force(a[1]).(*FuncV)
		if !ok {
			panic(abortf("sort.Slice: less is %T", a[1]))
		}
		at := func(i int) *Pointer { return &Pointer{Cell: s.Arr, Path: []int{s.Off + i}} }
		for i := 1; i < s.Len; i++ {
			for j := i; j > 0; j-- {
				r := x.callFuncV(fr, less, []Value{IntC(int64(j)), IntC(int64(j - 1))}, nil)
				t, ok := r.(*Term)
				if !ok {
					panic(abortf("sort.Slice: less returns %T", r))
				}
				if !x.Branch(t) {
					break
				}
				vj, vk := x.load(at(j)), x.load(at(j-1))
				x.store(at(j), vk)
				x.store(at(j-1), vj)
			}
		}
		return nil
	}
	m["sort.Slice"] = sortSlice
	m["sort.SliceStable"] = sortSlice
}
