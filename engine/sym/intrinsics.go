package sym

import (
	"os"
	"fmt"
	"go/types"
	"regexp"
	"strings"
)

// The harness runtime ("vrt"): functions with native bodies in the harness
// package that the engine intercepts by name.

func (x *Exec) constStr(v Value, what string) string {
	t := x.term(x.force(v))
	if !t.IsConst() || t.Sort != SStr {
		panic(abortf("harness: %s must be a constant string", what))
	}
	return t.S
}

func (x *Exec) symName(args []Value) string {
	name := x.constStr(args[0], "symbol name")
	if len(args) > 1 {
		for _, e := range x.sliceElems(args[1]) {
			name += fmt.Sprintf("_%d", x.concreteInt(e, "symbol index"))
		}
	}
	return name
}

func (e *Engine) registerIntrinsics(pkgPath string) {
	reg := func(name string, f ModelFn) { e.Models[pkgPath+"."+name] = f }

	reg("vrtStr", func(x *Exec, fr *frame, a []Value) Value { return x.sym(x.symName(a), SStr) })
	reg("vrtBool", func(x *Exec, fr *frame, a []Value) Value { return x.sym(x.symName(a), SBool) })
	reg("vrtInt", func(x *Exec, fr *frame, a []Value) Value { return x.sym(x.symName(a), SInt) })
	reg("vrtBytes", func(x *Exec, fr *frame, a []Value) Value { return &BytesV{T: x.sym(x.symName(a), SStr)} })
	reg("vrtIntRange", func(x *Exec, fr *frame, a []Value) Value {
		s := x.sym(x.constStr(a[0], "name"), SInt)
		x.assume(Le(x.term(a[1]), s))
		x.assume(Le(s, x.term(a[2])))
		return s
	})
	// vrtChoice(name, n): concrete fork, recorded in the model
	reg("vrtChoice", func(x *Exec, fr *frame, a []Value) Value {
		n := x.concreteInt(a[1], "choice count")
		return IntC(int64(x.Choose(x.constStr(a[0], "name"), n)))
	})
	// vrtConcretize(i, lo, hi): fork a symbolic int into its concrete values
	reg("vrtConcretize", func(x *Exec, fr *frame, a []Value) Value {
		t := x.term(a[0])
		if t.IsConst() {
			return t
		}
		lo, hi := x.concreteInt(a[1], "lo"), x.concreteInt(a[2], "hi")
		x.assume(Le(IntC(int64(lo)), t))
		x.assume(Le(t, IntC(int64(hi))))
		for v := lo; v < hi; v++ {
			if x.Branch(Eq(t, IntC(int64(v)))) {
				return IntC(int64(v))
			}
		}
		return IntC(int64(hi))
	})
	reg("vrtBound", func(x *Exec, fr *frame, a []Value) Value {
		name := x.constStr(a[0], "bound name")
		v := x.concreteInt(a[1], "quick bound")
		if x.E.Tier == "thorough" {
			v = x.concreteInt(a[2], "thorough bound")
		}
		x.bounds[name] = v
		return IntC(int64(v))
	})
	reg("vrtProp", func(x *Exec, fr *frame, a []Value) Value { return BoolC(x.E.Prop == x.constStr(a[0], "property id")) })
	reg("vrtPropID", func(x *Exec, fr *frame, a []Value) Value { return StrC(x.E.Prop) })
	reg("vrtThorough", func(x *Exec, fr *frame, a []Value) Value { return BoolC(x.E.Tier == "thorough") })
	reg("vrtSymbolic", func(x *Exec, fr *frame, a []Value) Value { return TrueT })
	reg("vrtAssume", func(x *Exec, fr *frame, a []Value) Value {
		c := x.term(a[0])
		x.assumes++
		if c.IsConst() {
			if !c.B {
				panic(&pathAbort{kind: "infeasible"})
			}
			return nil
		}
		// while a decision prefix is being replayed the assumption was already
		// found satisfiable by the path this one was forked from
		if x.pos >= len(x.decisions) || x.local != nil {
			if r, _ := x.check(c); r == Unsat {
				panic(&pathAbort{kind: "infeasible"})
			}
		}
		x.pc = append(x.pc, c)
		return nil
	})
	reg("vrtAssert", func(x *Exec, fr *frame, a []Value) Value {
		x.assertCond(x.constStr(a[0], "assertion id"), x.term(a[1]), "")
		return nil
	})
	reg("vrtFail", func(x *Exec, fr *frame, a []Value) Value {
		x.assertCond(x.constStr(a[0], "assertion id"), FalseT, "")
		return nil
	})
	reg("vrtCover", func(x *Exec, fr *frame, a []Value) Value {
		x.covers[x.constStr(a[0], "cover id")] = true
		return nil
	})
	reg("vrtOutcome", func(x *Exec, fr *frame, a []Value) Value {
		x.outcomes = append(x.outcomes, x.constStr(a[0], "outcome"))
		return nil
	})
	reg("vrtFinding", func(x *Exec, fr *frame, a []Value) Value {
		x.findings = append(x.findings, findingRegion{id: x.constStr(a[0], "finding id"), cond: x.term(a[1])})
		return nil
	})
	reg("vrtAnd", func(x *Exec, fr *frame, a []Value) Value {
		var ts []*Term
		for _, e := range x.sliceElems(a[0]) {
			ts = append(ts, x.term(e))
		}
		return And(ts...)
	})
	reg("vrtOr", func(x *Exec, fr *frame, a []Value) Value {
		var ts []*Term
		for _, e := range x.sliceElems(a[0]) {
			ts = append(ts, x.term(e))
		}
		return Or(ts...)
	})
	reg("vrtImplies", func(x *Exec, fr *frame, a []Value) Value { return Implies(x.term(a[0]), x.term(a[1])) })
	reg("vrtIteStr", func(x *Exec, fr *frame, a []Value) Value { return Ite(x.term(a[0]), x.term(a[1]), x.term(a[2])) })
	reg("vrtIteInt", func(x *Exec, fr *frame, a []Value) Value { return Ite(x.term(a[0]), x.term(a[1]), x.term(a[2])) })
	reg("vrtInSet", func(x *Exec, fr *frame, a []Value) Value {
		s := x.term(a[0])
		var ts []*Term
		for _, e := range x.sliceElems(a[1]) {
			ts = append(ts, Eq(s, x.term(e)))
		}
		return Or(ts...)
	})
	reg("vrtMatches", func(x *Exec, fr *frame, a []Value) Value {
		// vrtMatches(s, class): named regular languages shared with the native side
		s := x.term(a[0])
		class := x.constStr(a[1], "regex class")
		re, ok := regexClasses[class]
		if !ok {
			panic(abortf("harness: unknown regex class %s", class))
		}
		_ = re
		if class == "ncname_id" {
			ps := flatten(s)
			if len(ps) == 2 && ps[0].IsConst() && ps[0].S == "_" && x.attr(ps[1], "uuid") {
				return TrueT
			}
		}
		return InReOrConst(s, class)
	})
	reg("vrtLazy", func(x *Exec, fr *frame, a []Value) Value {
		iv, ok := a[0].(*IfaceV)
		if !ok || iv.T == nil {
			panic(abortf("vrtLazy: need a pointer"))
		}
		p, ok := iv.V.(*Pointer)
		if !ok || p.IsNil() {
			panic(abortf("vrtLazy: need a non-nil pointer"))
		}
		et := iv.T.Underlying().(*types.Pointer).Elem()
		x.store(p, x.lazyValue(et, x.constStr(a[1], "lazy name")))
		return nil
	})
	reg("vrtEpoch", func(x *Exec, fr *frame, a []Value) Value { x.epoch++; return nil })
	reg("vrtSharedWrites", func(x *Exec, fr *frame, a []Value) Value { return IntC(int64(len(x.sharedWrites))) })
	// vrtTry(f) runs f and reports whether it panicked
	reg("vrtTry", func(x *Exec, fr *frame, a []Value) (ret Value) {
		f := a[0].(*FuncV)
		defer func() {
			if r := recover(); r != nil {
				if gp, ok := r.(*guestPanic); ok {
					x.lastPanic = gp
					if x.E.Debug {
						fmt.Fprintln(os.Stderr, "GUEST-PANIC:", gp.msg, "at", gp.site)
					}
					ret = TrueT
					return
				}
				panic(r)
			}
		}()
		x.callFuncV(fr, f, nil, nil)
		return FalseT
	})
	reg("vrtPanicked", func(x *Exec, fr *frame, a []Value) Value {
		id := x.constStr(a[0], "assertion id")
		site := "?"
		if x.lastPanic != nil {
			site = x.lastPanic.site + " [" + x.lastPanic.msg + "]"
		}
		x.assertCond(id, FalseT, "panic:"+panicRegion(x.lastPanic))
		_ = site
		return nil
	})
	reg("vrtLenBound", func(x *Exec, fr *frame, a []Value) Value {
		return Le(Len(x.term(a[0])), x.term(a[1]))
	})
	reg("vrtHasPrefix", func(x *Exec, fr *frame, a []Value) Value { return PrefixOf(x.term(a[1]), x.term(a[0])) })
	reg("vrtHasSuffix", func(x *Exec, fr *frame, a []Value) Value { return SuffixOf(x.term(a[1]), x.term(a[0])) })
	reg("vrtContains", func(x *Exec, fr *frame, a []Value) Value { return Contains(x.term(a[0]), x.term(a[1])) })
	reg("vrtTrimPrefix", func(x *Exec, fr *frame, a []Value) Value { return TrimPrefix(x.term(a[0]), x.term(a[1])) })
	reg("vrtTrimSuffix", func(x *Exec, fr *frame, a []Value) Value { return TrimSuffix(x.term(a[0]), x.term(a[1])) })
	reg("vrtAtoiOK", func(x *Exec, fr *frame, a []Value) Value {
		return InRe(x.term(a[0]), regexClasses["int"])
	})
}

func panicRegion(gp *guestPanic) string {
	if gp == nil {
		return "?"
	}
	return gp.site
}

// assertCond discharges one assertion instance.
func (x *Exec) assertCond(id string, c *Term, forcedRegion string) {
	x.asserts++
	if c.IsTrue() {
		x.assertsTriv++
		return
	}
	neg := Not(c)
	// regions of known findings that apply on this path
	var knownConds []*Term
	var knownIDs []string
	for _, f := range x.findings {
		if x.E.Known[f.id] {
			knownConds = append(knownConds, f.cond)
			knownIDs = append(knownIDs, f.id)
		}
	}
	if forcedRegion != "" {
		// panic sites: the region is the site itself
		r, m, _ := x.checkModel(neg)
		if r == Sat {
			v := &Violation{ID: id, Model: m, Decision: append([]int8{}, x.decisions[:x.pos]...), Site: forcedRegion}
			if x.E.Known[forcedRegion] {
				v.Region = forcedRegion
			}
			x.violations = append(x.violations, v)
		} else if r == Unknown {
			x.inconclusive = append(x.inconclusive, "assertion "+id+": solver unknown")
		}
		return
	}
	outside := append([]*Term{neg}, mapNot(knownConds)...)
	r, m, _ := x.checkModel(outside...)
	if r == Unsat && x.E.Tier == "thorough" {
		// second opinion on every unsat verdict (DESIGN §4.4)
		x.confirms++
		if r2, who := x.Solver.Confirm(x.pc, outside); r2 == Sat {
			x.inconclusive = append(x.inconclusive, "assertion "+id+": solvers disagree (unsat vs sat by "+who+")")
		} else if r2 == Unsat {
			x.confirmed++
		}
	}
	switch r {
	case Sat:
		x.violations = append(x.violations, &Violation{ID: id, Model: m, Decision: append([]int8{}, x.decisions[:x.pos]...)})
	case Unknown:
		x.inconclusive = append(x.inconclusive, "assertion "+id+": solver unknown")
	}
	for k, kc := range knownConds {
		r2, m2, _ := x.checkModel(neg, kc)
		if r2 == Sat {
			x.violations = append(x.violations, &Violation{ID: id, Region: knownIDs[k], Model: m2, Decision: append([]int8{}, x.decisions[:x.pos]...)})
		}
	}
	// continue under the assumption that the assertion holds
	if r2, _ := x.check(c); r2 == Unsat {
		panic(&pathAbort{kind: "stop", reason: "assertion " + id + " fails on every value of this path"})
	}
	x.pc = append(x.pc, c)
}

func mapNot(ts []*Term) []*Term {
	out := make([]*Term, len(ts))
	for i, t := range ts {
		out[i] = Not(t)
	}
	return out
}

// named regular languages (SMT-LIB text); the native runtime has Go regexps of the same names.
var regexClasses = map[string]string{
	// canonical xs:unsignedShort-like index: 0 | [1-9][0-9]{0,4}
	"index": `(re.union (str.to_re "0") (re.++ (re.range "1" "9") ((_ re.loop 0 4) (re.range "0" "9"))))`,
	"int":   `(re.++ (re.opt (re.union (str.to_re "+") (str.to_re "-"))) (re.+ (re.range "0" "9")))`,
	"ncname_id": `(re.++ (str.to_re "_") ((_ re.loop 8 8) (re.union (re.range "0" "9") (re.range "a" "f"))) (str.to_re "-") ((_ re.loop 4 4) (re.union (re.range "0" "9") (re.range "a" "f"))) (str.to_re "-") ((_ re.loop 4 4) (re.union (re.range "0" "9") (re.range "a" "f"))) (str.to_re "-") ((_ re.loop 4 4) (re.union (re.range "0" "9") (re.range "a" "f"))) (str.to_re "-") ((_ re.loop 12 12) (re.union (re.range "0" "9") (re.range "a" "f"))))`,
	"nobrace":   `(re.* (re.diff re.allchar (re.union (str.to_re "{") (str.to_re "}"))))`,
	"hostchars": `(re.* (re.union (re.range "a" "z") (re.range "0" "9") (str.to_re ".") (str.to_re "-")))`,
	"hosttoken": `(re.+ (re.union (re.range "a" "z") (re.range "0" "9") (str.to_re ".") (str.to_re "-")))`,
	"pathchars": `(re.union (str.to_re "") (re.++ (re.opt (str.to_re "/")) (re.+ (re.union (re.range "a" "z") (re.range "0" "9"))) (re.* (re.++ (str.to_re "/") (re.+ (re.union (re.range "a" "z") (re.range "0" "9"))))) (re.opt (str.to_re "/"))))`,
	"querychars": `(re.* (re.union (re.range "a" "z") (re.range "0" "9") (str.to_re "=")))`,
}

var concreteClassRe = map[string]*regexp.Regexp{
	"hostchars":  regexp.MustCompile(`^[a-z0-9.-]*$`),
	"hosttoken":  regexp.MustCompile(`^[a-z0-9.-]+$`),
	"pathchars":  regexp.MustCompile(`^(/?[a-z0-9]+(/[a-z0-9]+)*/?)?$`),
	"querychars": regexp.MustCompile(`^[a-z0-9=]*$`),
}

func matchClassConcrete(class, s string) bool {
	switch class {
	case "index":
		if s == "0" {
			return true
		}
		if len(s) < 1 || len(s) > 5 || s[0] < '1' || s[0] > '9' {
			return false
		}
		for _, c := range s[1:] {
			if c < '0' || c > '9' {
				return false
			}
		}
		return true
	case "int":
		t := strings.TrimLeft(s, "+-")
		if len(s)-len(t) > 1 || t == "" {
			return false
		}
		for _, c := range t {
			if c < '0' || c > '9' {
				return false
			}
		}
		return true
	case "nobrace":
		return !strings.ContainsAny(s, "{}")
	case "hostchars", "hosttoken", "pathchars", "querychars":
		return concreteClassRe[class].MatchString(s)
	case "ncname_id":
		if len(s) != 37 || s[0] != '_' {
			return false
		}
		for i, c := range s[1:] {
			if i == 8 || i == 13 || i == 18 || i == 23 {
				if c != '-' {
					return false
				}
				continue
			}
			if !(c >= '0' && c <= '9' || c >= 'a' && c <= 'f') {
				return false
			}
		}
		return true
	}
	return false
}
