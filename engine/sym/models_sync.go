package sym

import (
	"fmt"
	"go/types"
	"strings"
)

// Contracts for package sync and sync/atomic. Schedules are not encoded
// (DESIGN §3.7): one request is executed on its own, so a lock is always free
// and a Once has not run yet (the provider is fresh). What the models keep is
// the bookkeeping the reduction needs: which writes to provider-lifetime state
// happen under synchronisation, and whether the written value depends on the
// request.

// configSym: symbols that stand for construction-time configuration (they are
// the same for every request a provider serves).
func configSym(name string) bool {
	for _, p := range []string{"conf.", "ep.", "issuer.", "org.", "contact."} {
		if strings.HasPrefix(name, p) {
			return true
		}
	}
	return false
}

// dependsOnRequest: can the value differ between two requests to the same
// provider? Terms over request / storage symbols, and objects that hold such
// terms, can; constants, configuration and library objects built from them
// cannot.
func (x *Exec) dependsOnRequest(v Value) bool {
	seen := map[*Cell]bool{}
	var walk func(v Value, depth int) bool
	walk = func(v Value, depth int) bool {
		if depth > 24 || v == nil {
			return false
		}
		switch a := v.(type) {
		case *Term:
			syms := map[string]bool{}
			collectSyms(a, syms)
			for s := range syms {
				if !configSym(s) {
					return true
				}
			}
			return false
		case *BytesV:
			return walk(a.T, depth+1)
		case *Pointer:
			if a.IsNil() || seen[a.Cell] {
				return false
			}
			seen[a.Cell] = true
			return walk(a.Cell.V, depth+1)
		case *StructV:
			for _, f := range a.F {
				if walk(f, depth+1) {
					return true
				}
			}
		case *ArrayV:
			for _, f := range a.E {
				if walk(f, depth+1) {
					return true
				}
			}
		case *SliceV:
			if a.Arr != nil && !seen[a.Arr] {
				seen[a.Arr] = true
				return walk(a.Arr.V, depth+1)
			}
		case *MapV:
			if a.M != nil {
				if a.M.Lazy != nil {
					return true
				}
				for _, e := range a.M.Entries {
					if walk(e.Key, depth+1) || walk(e.Val, depth+1) {
						return true
					}
				}
			}
		case *IfaceV:
			if a.T != nil {
				return walk(a.V, depth+1)
			}
		case *FuncV:
			for _, e := range a.Env {
				if walk(e, depth+1) {
					return true
				}
			}
		case TupleV:
			for _, e := range a {
				if walk(e, depth+1) {
					return true
				}
			}
		case *LazyRef:
			return true
		case *TimeV:
			return walk(a.NS, depth+1)
		case *formVals, *headerVals:
			return true
		case *Native:
			// key material and signers built from it come from the storage at request time
			switch a.Kind {
			case "xmlsigner", "privkey", "pubkey":
				return true
			}
		}
		return false
	}
	return walk(v, 0)
}

func (x *Exec) syncKey(v Value) (string, *Cell) {
	p, ok := x.force(v).(*Pointer)
	if !ok || p.IsNil() {
		panic(&guestPanic{msg: "nil pointer dereference (sync object)"})
	}
	return fmt.Sprintf("%d%v", p.Cell.ID, p.Path), p.Cell
}

// syncWrite records a write to a provider-lifetime synchronisation-protected
// container (sync.Map, atomic.Value): it matters when what is written depends
// on the request.
func (x *Exec) syncWrite(c *Cell, what string, vals ...Value) {
	if c.Epoch < x.epoch && x.epoch > 0 && !x.E.isHarnessFn(x.curFn) {
		for _, v := range vals {
			if x.dependsOnRequest(v) {
				where := "?"
				if x.curFn != nil {
					where = x.curFn.String()
				}
				x.sharedWrites = append(x.sharedWrites, fmt.Sprintf("request-dependent %s on provider-lifetime object %q in %s", what, c.Name, where))
				return
			}
		}
	}
}

func registerSyncModels(e *Engine) {
	m := e.Models
	lock := func(x *Exec, fr *frame, a []Value) Value { x.syncKey(a[0]); x.syncDepth++; return nil }
	unlock := func(x *Exec, fr *frame, a []Value) Value {
		if x.syncDepth > 0 {
			x.syncDepth--
		}
		return nil
	}
	for _, t := range []string{"(*sync.Mutex)", "(*sync.RWMutex)"} {
		m[t+".Lock"] = lock
		m[t+".Unlock"] = unlock
		m[t+".TryLock"] = func(x *Exec, fr *frame, a []Value) Value { x.syncKey(a[0]); x.syncDepth++; return TrueT }
	}
	m["(*sync.RWMutex).RLock"] = lock
	m["(*sync.RWMutex).RUnlock"] = unlock
	m["(*sync.RWMutex).TryRLock"] = func(x *Exec, fr *frame, a []Value) Value { x.syncKey(a[0]); x.syncDepth++; return TrueT }
	m["(*sync.WaitGroup).Add"] = func(x *Exec, fr *frame, a []Value) Value { return nil }
	m["(*sync.WaitGroup).Done"] = func(x *Exec, fr *frame, a []Value) Value { return nil }
	m["(*sync.WaitGroup).Wait"] = func(x *Exec, fr *frame, a []Value) Value { return nil }

	// sync.Once: the provider is fresh, so the function runs on the first call of
	// this request; its writes are synchronised.
	m["(*sync.Once).Do"] = func(x *Exec, fr *frame, a []Value) Value {
		k, _ := x.syncKey(a[0])
		if x.onceDone[k] {
			return nil
		}
		x.onceDone[k] = true
		x.syncDepth++
		x.callValue(fr, a[1], nil, nil, nil)
		x.syncDepth--
		return nil
	}

	// sync.Map: an association list per object, empty in a fresh provider
	smap := func(x *Exec, v Value) (*MapObj, *Cell) {
		k, c := x.syncKey(v)
		mo := x.syncMaps[k]
		if mo == nil {
			mo = &MapObj{Epoch: 1 << 30}
			x.syncMaps[k] = mo
		}
		return mo, c
	}
	anyT := func(x *Exec) *IfaceV { return NilIface }
	m["(*sync.Map).Load"] = func(x *Exec, fr *frame, a []Value) Value {
		mo, _ := smap(x, a[0])
		for _, en := range mo.Entries {
			if x.Branch(x.keyEq(en.Key, a[1])) {
				return TupleV{en.Val, TrueT}
			}
		}
		return TupleV{anyT(x), FalseT}
	}
	m["(*sync.Map).Store"] = func(x *Exec, fr *frame, a []Value) Value {
		mo, c := smap(x, a[0])
		x.syncWrite(c, "sync.Map.Store", a[1], a[2])
		for _, en := range mo.Entries {
			if x.Branch(x.keyEq(en.Key, a[1])) {
				en.Val = a[2]
				return nil
			}
		}
		mo.Entries = append(mo.Entries, &MapEntry{Key: a[1], Present: TrueT, Val: a[2]})
		return nil
	}
	m["(*sync.Map).LoadOrStore"] = func(x *Exec, fr *frame, a []Value) Value {
		mo, c := smap(x, a[0])
		for _, en := range mo.Entries {
			if x.Branch(x.keyEq(en.Key, a[1])) {
				return TupleV{en.Val, TrueT}
			}
		}
		x.syncWrite(c, "sync.Map.LoadOrStore", a[1], a[2])
		mo.Entries = append(mo.Entries, &MapEntry{Key: a[1], Present: TrueT, Val: a[2]})
		return TupleV{a[2], FalseT}
	}
	m["(*sync.Map).Delete"] = func(x *Exec, fr *frame, a []Value) Value {
		mo, _ := smap(x, a[0])
		for i, en := range mo.Entries {
			if x.Branch(x.keyEq(en.Key, a[1])) {
				mo.Entries = append(mo.Entries[:i:i], mo.Entries[i+1:]...)
				return nil
			}
		}
		return nil
	}
	m["(*sync.Map).LoadAndDelete"] = func(x *Exec, fr *frame, a []Value) Value {
		mo, _ := smap(x, a[0])
		for i, en := range mo.Entries {
			if x.Branch(x.keyEq(en.Key, a[1])) {
				mo.Entries = append(mo.Entries[:i:i], mo.Entries[i+1:]...)
				return TupleV{en.Val, TrueT}
			}
		}
		return TupleV{anyT(x), FalseT}
	}
	m["(*sync.Map).Range"] = func(x *Exec, fr *frame, a []Value) Value {
		mo, _ := smap(x, a[0])
		for _, en := range append([]*MapEntry{}, mo.Entries...) {
			r := x.callValue(fr, a[1], []Value{en.Key, en.Val}, nil, nil)
			if t, ok := r.(*Term); ok && !x.Branch(t) {
				break
			}
		}
		return nil
	}

	// sync.Pool. A pool is provider-lifetime (usually package-level) state shared by
	// all requests, so one request is executed against an arbitrary history and under
	// an arbitrary schedule of the others:
	//  * Get returns what New builds, or an object an earlier request put back. For a
	//    *bytes.Buffer that is a buffer holding whatever that request left in it - an
	//    arbitrary byte string unless this request resets it (flag hist.abortedclient:
	//    natively the history is a request whose client aborted the transfer);
	//  * after Put the object belongs to whoever gets it next: byte slices that still
	//    alias a buffer put back (Buffer.Bytes) have arbitrary content from then on
	//    (flag sched.interleave: natively another request is served before the bytes
	//    are consumed).
	// Pools of other object types hand out fresh objects only (stated bound).
	poolT := func() types.Type { return e.namedType("sync", "Pool") }
	bufferT := func() types.Type { return e.namedType("bytes", "Buffer") }
	isBufPtr := func(x *Exec, v Value) (*Pointer, bool) {
		iv, ok := x.force(v).(*IfaceV)
		if !ok || iv.T == nil {
			return nil, false
		}
		pt, ok := iv.T.(*types.Pointer)
		if !ok || !types.Identical(pt.Elem(), bufferT()) {
			return nil, false
		}
		p, ok := x.force(iv.V).(*Pointer)
		if !ok || p.IsNil() {
			return nil, false
		}
		return p, true
	}
	m["(*sync.Pool).Get"] = func(x *Exec, fr *frame, a []Value) Value {
		k, _ := x.syncKey(a[0])
		pp := x.force(a[0]).(*Pointer)
		// an object put back earlier on this path (by the earlier request of the history
		// dimension, or by this request) may be handed out again, as it was left
		if st := x.pools[k]; len(st) > 0 {
			x.poolSeq++
			if x.Branch(x.sym(fmt.Sprintf("pool!%d.reused", x.poolSeq), SBool)) {
				obj := st[len(st)-1]
				x.pools[k] = st[:len(st)-1]
				return obj
			}
		}
		var obj Value = NilIface
		if nf, ok := x.force(x.getField(pp, poolT(), "New")).(*FuncV); ok && nf != nil && (nf.Fn != nil || nf.Native != nil) {
			obj = x.callFuncV(fr, nf, nil, nil)
		}
		if bp, ok := isBufPtr(x, obj); ok {
			x.poolSeq++
			reused := x.sym(fmt.Sprintf("pool!%d.reused", x.poolSeq), SBool)
			x.bounds["sync.Pool of *bytes.Buffer: leftover content of a reused buffer is one arbitrary string"] = 1
			if x.Branch(reused) {
				left := x.sym(fmt.Sprintf("pool!%d.leftover", x.poolSeq), SStr)
				cur := bytesTerm(x, x.getField(bp, bufferT(), "buf"))
				x.setField(bp, bufferT(), "buf", &BytesV{T: Concat(left, cur)})
				x.assume(x.sym("hist.abortedclient", SBool))
			}
		} else if iv, ok := x.force(obj).(*IfaceV); ok && iv.T != nil {
			x.bounds["sync.Pool of "+iv.T.String()+": fresh objects, or objects put back earlier on the same path (earlier request of the history dimension)"] = 1
		}
		_ = k
		return obj
	}
	m["(*sync.Pool).Put"] = func(x *Exec, fr *frame, a []Value) Value {
		k, _ := x.syncKey(a[0])
		if iv, ok := x.force(a[1]).(*IfaceV); ok && iv.T != nil {
			x.pools[k] = append(x.pools[k], iv)
		}
		if bp, ok := isBufPtr(x, a[1]); ok {
			als := x.bufAliases[bp.Cell]
			if len(als) > 0 {
				x.assume(x.sym("sched.interleave", SBool))
				for _, b := range als {
					b.T = x.fresh("clobbered", SStr)
				}
				x.bufAliases[bp.Cell] = nil
			}
		}
		return nil
	}

	// atomic.Value
	m["(*sync/atomic.Value).Load"] = func(x *Exec, fr *frame, a []Value) Value {
		k, _ := x.syncKey(a[0])
		if v, ok := x.atomicVals[k]; ok {
			return v
		}
		return NilIface
	}
	m["(*sync/atomic.Value).Store"] = func(x *Exec, fr *frame, a []Value) Value {
		k, c := x.syncKey(a[0])
		x.syncWrite(c, "atomic.Value.Store", a[1])
		x.atomicVals[k] = a[1]
		return nil
	}
	// integer atomics on plain words: ordinary loads and stores that count as synchronised
	for _, w := range []string{"Int32", "Int64", "Uint32", "Uint64"} {
		w := w
		m["sync/atomic.Load"+w] = func(x *Exec, fr *frame, a []Value) Value { return x.load(x.force(a[0]).(*Pointer)) }
		m["sync/atomic.Store"+w] = func(x *Exec, fr *frame, a []Value) Value {
			x.syncDepth++
			x.store(x.force(a[0]).(*Pointer), a[1])
			x.syncDepth--
			return nil
		}
		m["sync/atomic.Add"+w] = func(x *Exec, fr *frame, a []Value) Value {
			p := x.force(a[0]).(*Pointer)
			n := Add(x.term(x.load(p)), x.term(a[1]))
			x.syncDepth++
			x.store(p, n)
			x.syncDepth--
			return n
		}
	}
}
