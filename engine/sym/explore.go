package sym

import (
	"fmt"
	"go/token"
	"os"
	"path/filepath"
	"sort"
	"strings"
	"sync"
	"time"

	"golang.org/x/tools/go/packages"
	"golang.org/x/tools/go/ssa"
	"golang.org/x/tools/go/ssa/ssautil"
)

const (
	ModulePath = "github.com/zitadel/saml"
	HarnessPkg = "github.com/zitadel/saml/pkg/provider"
)

// Locations. The registered commands use the defaults; VERIF_DIR / VERIF_REPO
// exist only for background runs from a snapshot (vp run), which must not
// write into /verif or depend on edits made to /repo meanwhile.
var (
	VerifDir    = envOr("VERIF_DIR", "/verif")
	RepoDir     = envOr("VERIF_REPO", "/repo")
	HarnessDir  = filepath.Join(VerifDir, "harness", "provider")
	HarnessDest = filepath.Join(RepoDir, "pkg", "provider")
)

func envOr(k, d string) string {
	if v := os.Getenv(k); v != "" {
		return v
	}
	return d
}

// LoadEngine loads /repo's current working tree plus the harness overlay.
func LoadEngine(tier string) (*Engine, error) {
	files, err := filepath.Glob(filepath.Join(HarnessDir, "*.go"))
	if err != nil {
		return nil, err
	}
	overlay := map[string][]byte{}
	for _, f := range files {
		if strings.HasSuffix(f, "_test.go") {
			continue
		}
		data, err := os.ReadFile(f)
		if err != nil {
			return nil, err
		}
		overlay[filepath.Join(HarnessDest, filepath.Base(f))] = data
	}
	Overlay = overlay
	fset := token.NewFileSet()
	cfg := &packages.Config{
		Mode:    packages.LoadAllSyntax,
		Dir:     RepoDir,
		Overlay: overlay,
		Fset:    fset,
		Env:     append(os.Environ(), "GOFLAGS=-mod=mod", "GOPROXY=off"),
	}
	pkgs, err := packages.Load(cfg, "./pkg/provider")
	if err != nil {
		return nil, fmt.Errorf("load: %w", err)
	}
	var errs []string
	packages.Visit(pkgs, nil, func(p *packages.Package) {
		for _, e := range p.Errors {
			errs = append(errs, e.Error())
		}
	})
	if len(errs) > 0 {
		return nil, fmt.Errorf("package errors:\n%s", strings.Join(errs, "\n"))
	}
	prog, spkgs := ssautil.AllPackages(pkgs, ssa.InstantiateGenerics)
	prog.Build()
	e := &Engine{
		Prog: prog, ModulePath: ModulePath, Models: map[string]ModelFn{}, NativeMeth: map[string]ModelFn{},
		Tier: tier, LoopBound: 300, StepBound: 3_000_000, LazySliceMax: 1, Summaries: true, Known: map[string]bool{}, Fset: fset,
	}
	if tier == "thorough" {
		e.LazySliceMax = 2
	}
	for _, sp := range spkgs {
		if sp != nil && sp.Pkg.Path() == HarnessPkg {
			e.HarnessPkg = sp
		}
	}
	if e.HarnessPkg == nil {
		return nil, fmt.Errorf("harness package not found")
	}
	e.moduleInits = []*ssa.Function{e.HarnessPkg.Func("init")}
	e.registerIntrinsics(HarnessPkg)
	e.registerEnvIntrinsics(HarnessPkg)
	// small pure library functions executed from their real SSA
	e.AllowReal = append(e.AllowReal, "strconv.FormatBool", "strconv.ParseBool", "strconv.AppendBool")
	registerModels(e)
	return e, nil
}

// PathSample is a completed path kept for witness replay.
type PathSample struct {
	Model    Model
	Outcomes []string
	Decision []int8
}

// Report is the aggregate of one exploration.
type Report struct {
	Harness      string
	Paths        int
	Infeasible   int
	Branches     int
	Asserts      int
	AssertsTriv  int
	Assumes      int
	Confirms     int // thorough: unsat verdicts put to the second solver
	Confirmed    int // ... and answered unsat by it as well
	Violations   []*Violation
	Covers       map[string]bool
	Inconclusive map[string]int
	Bounds       map[string]int
	Funcs        map[string]int
	Contracts    map[string]bool
	Samples      []*PathSample
	classes      map[string]bool
	SharedWrites map[string]int
	ForkSites    map[string]int
	Wall         time.Duration
	TimedOut     bool
}

type workQueue struct {
	mu     sync.Mutex
	cond   *sync.Cond
	items  [][]int8
	active int
	stop   bool
}

func (q *workQueue) push(it []int8) {
	q.mu.Lock()
	q.items = append(q.items, it)
	q.mu.Unlock()
	q.cond.Signal()
}

func (q *workQueue) pop() ([]int8, bool) {
	q.mu.Lock()
	defer q.mu.Unlock()
	for len(q.items) == 0 {
		if q.active == 0 || q.stop {
			q.cond.Broadcast()
			return nil, false
		}
		q.cond.Wait()
	}
	if q.stop {
		return nil, false
	}
	it := q.items[len(q.items)-1]
	q.items = q.items[:len(q.items)-1]
	q.active++
	return it, true
}

func (q *workQueue) done() {
	q.mu.Lock()
	q.active--
	q.mu.Unlock()
	q.cond.Broadcast()
}

// Explore runs the harness function over all feasible paths.
func (e *Engine) Explore(harness string, workers int, solvers []string, queryMs int, budget time.Duration, maxSamples int) *Report {
	fn := e.HarnessPkg.Func(harness)
	rep := &Report{Harness: harness, Covers: map[string]bool{}, Inconclusive: map[string]int{}, Bounds: map[string]int{},
		Funcs: map[string]int{}, Contracts: map[string]bool{}, classes: map[string]bool{}, SharedWrites: map[string]int{}, ForkSites: map[string]int{}}
	if fn == nil {
		rep.Inconclusive["harness function "+harness+" not found"]++
		return rep
	}
	start := time.Now()
	q := &workQueue{}
	q.cond = sync.NewCond(&q.mu)
	q.items = append(q.items, []int8{})
	var mu sync.Mutex
	seenViol := map[string]bool{}
	var wg sync.WaitGroup
	deadline := start.Add(budget)
	for w := 0; w < workers; w++ {
		wg.Add(1)
		go func() {
			defer wg.Done()
			solver := NewPortfolio(solvers, queryMs)
			defer solver.Close()
			for {
				dec, ok := q.pop()
				if !ok {
					return
				}
				if time.Now().After(deadline) {
					mu.Lock()
					rep.TimedOut = true
					mu.Unlock()
					q.mu.Lock()
					q.stop = true
					q.mu.Unlock()
					q.done()
					return
				}
				x, status, reason := e.runPath(fn, solver, dec)
				for _, nw := range x.newWork {
					q.push(nw)
				}
				mu.Lock()
				rep.Branches += x.branches
				rep.Asserts += x.asserts
				rep.AssertsTriv += x.assertsTriv
				rep.Assumes += x.assumes
				rep.Confirms += x.confirms
				rep.Confirmed += x.confirmed
				switch status {
				case "done", "stop":
					rep.Paths++
				case "infeasible":
					rep.Infeasible++
				default:
					rep.Paths++
					rep.Inconclusive[reason]++
				}
				for _, s := range x.inconclusive {
					rep.Inconclusive[s]++
				}
				for k := range x.covers {
					rep.Covers[k] = true
				}
				for k, v := range x.bounds {
					rep.Bounds[k] = v
				}
				for k, v := range x.funcsSeen {
					rep.Funcs[k] = v
				}
				for k := range x.contracts {
					rep.Contracts[k] = true
				}
				for _, s := range x.sharedWrites {
					rep.SharedWrites[s]++
				}
				for k, n := range x.forkSites {
					rep.ForkSites[k] += n
				}
				for _, v := range x.violations {
					key := v.ID + "|" + v.Region + "|" + v.Site
					if !seenViol[key] {
						seenViol[key] = true
						rep.Violations = append(rep.Violations, v)
					}
				}
				wantSample := false
				class := strings.Join(x.outcomes, ",")
				if status == "done" && !rep.classes[class] && len(rep.Samples) < maxSamples && len(x.unreplayable) == 0 {
					rep.classes[class] = true
					wantSample = true
				}
				mu.Unlock()
				if wantSample {
					if r, m, robust := x.checkModel(); r == Sat && robust {
						mu.Lock()
						rep.Samples = append(rep.Samples, &PathSample{Model: m, Outcomes: append([]string{}, x.outcomes...), Decision: dec})
						mu.Unlock()
					}
				}
				q.done()
			}
		}()
	}
	wg.Wait()
	rep.Wall = time.Since(start)
	sort.Slice(rep.Violations, func(i, j int) bool {
		return rep.Violations[i].ID+rep.Violations[i].Region < rep.Violations[j].ID+rep.Violations[j].Region
	})
	return rep
}

func (e *Engine) runPath(fn *ssa.Function, solver *Portfolio, dec []int8) (x *Exec, status, reason string) {
	x = e.NewExec(solver, dec)
	status = "done"
	defer func() {
		if r := recover(); r != nil {
			switch a := r.(type) {
			case *pathAbort:
				status, reason = a.kind, a.reason
			case *guestPanic:
				status, reason = "inconclusive", "uncaught panic outside vrtTry: "+a.msg+" at "+a.site
			default:
				panic(r)
			}
		}
	}()
	x.RunInit()
	x.CallFunction(fn, nil, nil, nil, nil)
	return
}
