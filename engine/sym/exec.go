package sym

import (
	"fmt"
	"go/constant"
	"go/token"
	"go/types"
	"os"
	"regexp"
	"strings"
	"sync"

	"golang.org/x/tools/go/ssa"
)

// ModelFn is a contract for a function outside the module (or an intrinsic).
type ModelFn func(x *Exec, fr *frame, args []Value) Value

// Engine holds what is shared by all paths of one check.
type Engine struct {
	Prog         *ssa.Program
	ModulePath   string
	HarnessPkg   *ssa.Package
	Models       map[string]ModelFn
	NativeMeth   map[string]ModelFn
	AllowReal    []string // prefixes of fn.String() executed from real SSA
	Tier         string   // quick | thorough
	LoopBound    int
	StepBound    int
	LazySliceMax int
	Known        map[string]bool // known finding ids (open)
	Debug        bool
	Prop         string
	Summaries    bool // pure-callee summaries (DESIGN §3.3)
	IfConvert    bool // merge string-concatenation triangles into ite terms (off: observation intrinsics want concatenation trees)
	harnessFn    map[*ssa.Function]bool
	moduleInits  []*ssa.Function
	srcLines     map[string][]string
	hmu          sync.Mutex
	srcMu        sync.Mutex
	Fset         *token.FileSet
}

// pathAbort ends a path without a verdict about the guest program.
type pathAbort struct {
	kind   string // infeasible | inconclusive | stop
	reason string
}

func abortf(format string, a ...interface{}) *pathAbort {
	return &pathAbort{kind: "inconclusive", reason: fmt.Sprintf(format, a...)}
}

// guestPanic is a panic of the program under analysis.
type guestPanic struct {
	msg  string
	site string
}

type deferred struct {
	fn   Value
	args []Value
	call *ssa.CallCommon
}

// localCtx is the state of a pure-callee summary (DESIGN §3.3): the callee's
// internal branches are decided locally and its result is returned as one
// ite-combined term instead of forking the caller's path.
type localCtx struct {
	decisions []int8
	pos       int
	newWork   [][]int8
	cellMark  int
}

type localAbort struct{ why string }

type mergeInfo struct {
	cond      *Term
	thenBlock *ssa.BasicBlock
	from      *ssa.BasicBlock
}

type frame struct {
	merge  *mergeInfo
	fn     *ssa.Function
	locals map[ssa.Value]Value
	env    []Value
	defers []deferred
	visits map[*ssa.BasicBlock]int
	caller *frame
	site   ssa.Instruction
}

// Violation candidate found on a path.
type Violation struct {
	ID       string // assertion id
	Region   string // known-finding region it falls in ("" = none)
	Site     string // for panics
	Model    Model
	Decision []int8
	Note     string
}

// Exec executes one path.
type Exec struct {
	E         *Engine
	Solver    *Portfolio
	decisions []int8
	pos       int
	newWork   [][]int8
	pc        []*Term
	globals   map[*ssa.Global]*Cell
	symbols   map[string]*Term
	epoch     int
	steps     int
	cellSeq   int
	errSeq    int
	freshSeq  int

	// harness-visible state
	findings   []findingRegion
	violations []*Violation
	covers     map[string]bool
	outcomes   []string
	bounds     map[string]int
	assumes    int
	asserts    int
	assertsTriv int
	branches   int
	funcsSeen  map[string]int
	contracts  map[string]bool
	lastPanic  *guestPanic
	sharedWrites []string
	inconclusive []string

	// side tables for contracts
	xmlTokens map[string]*xmlToken // symbol name -> snapshot
	tokenSeq  int
	clockSeq  int
	clockLast *Term
	clockBase *Term
	timeStrs  map[string]*timeStr
	signed    []*signedTriple
	certs     map[string]*certInfo
	strAttrs  map[string]map[string]bool // symbol name -> flags (notb64, notxml, notflate ...)
	reqs      map[*Cell]*reqInfo
	urlInfos  map[*Cell]*urlInfo
	nowCalls  int
	idSeq     int
	uuids     []*Term

	renders      map[string]*renderInfo
	renderSeq    int
	tokenOrder   []string
	materialised []*Term
	unreplayable []string
	clocks       []*Term
	timeSyms     []*timeStr
	parsedURLs   []string
	fwdSeq       int
	sigCtx       map[*Cell]*sigCtxInfo
	privKeys     map[*Cell]*Term
	curFn        *ssa.Function
	pcSyms       map[string]bool
	pcScanned    int
	pcKeys       map[string]bool
	pcKeyed      int
	forkSites    map[string]int
	curSite      string
	wantModel    bool
	local        *localCtx
	summaries    int
	urlParts     map[string][]*Term
	knownLen     map[string]*Term
	syncDepth    int
	onceDone     map[string]bool
	syncMaps     map[string]*MapObj
	atomicVals   map[string]Value
	rawQueries   map[string]*reqInfo
	bufAliases   map[*Cell][]*BytesV
	pools        map[string][]Value
	confirms     int
	confirmed    int
	poolSeq      int
}

type findingRegion struct {
	id   string
	cond *Term
}

func (e *Engine) NewExec(solver *Portfolio, decisions []int8) *Exec {
	return &Exec{
		E: e, Solver: solver, decisions: decisions,
		globals: map[*ssa.Global]*Cell{}, symbols: map[string]*Term{},
		covers: map[string]bool{}, bounds: map[string]int{}, funcsSeen: map[string]int{},
		contracts: map[string]bool{}, xmlTokens: map[string]*xmlToken{},
		timeStrs: map[string]*timeStr{}, certs: map[string]*certInfo{},
		strAttrs: map[string]map[string]bool{}, reqs: map[*Cell]*reqInfo{}, urlInfos: map[*Cell]*urlInfo{},
		urlParts: map[string][]*Term{}, knownLen: map[string]*Term{}, onceDone: map[string]bool{}, syncMaps: map[string]*MapObj{}, atomicVals: map[string]Value{}, rawQueries: map[string]*reqInfo{}, bufAliases: map[*Cell][]*BytesV{}, pools: map[string][]Value{}, forkSites: map[string]int{}, pcSyms: map[string]bool{}, pcKeys: map[string]bool{}, renders: map[string]*renderInfo{}, sigCtx: map[*Cell]*sigCtxInfo{}, privKeys: map[*Cell]*Term{},
	}
}

func (x *Exec) newCell(v Value, t types.Type, name string) *Cell {
	x.cellSeq++
	return &Cell{V: v, Typ: t, Epoch: x.epoch, Name: name, ID: x.cellSeq}
}

func (x *Exec) fresh(prefix string, s Sort) *Term {
	x.freshSeq++
	return x.sym(fmt.Sprintf("%s!%d", prefix, x.freshSeq), s)
}

func (x *Exec) sym(name string, s Sort) *Term {
	if t, ok := x.symbols[name]; ok {
		if t.Sort != s {
			panic(abortf("symbol %s used with two sorts", name))
		}
		return t
	}
	t := Sym(name, s)
	x.symbols[name] = t
	return t
}

func (x *Exec) assume(c *Term) {
	if c.IsTrue() {
		return
	}
	if c.IsFalse() {
		panic(&pathAbort{kind: "infeasible"})
	}
	x.pc = append(x.pc, c)
}

func (x *Exec) check(extra ...*Term) (Result, Model) { return x.checkW(false, extra...) }

// checkM also fetches a model on sat.
func (x *Exec) checkM(extra ...*Term) (Result, Model) { return x.checkW(true, extra...) }

func (x *Exec) checkW(wantModel bool, extra ...*Term) (Result, Model) {
	r, m, why := x.Solver.Check(x.pc, extra, wantModel)
	if r == Unknown && x.E.Debug {
		fmt.Fprintln(os.Stderr, "UNKNOWN:", why)
	}
	return r, m
}

// Branch forks on a symbolic condition; decisions beyond the prefix are
// checked for feasibility and the alternative is queued.
func (x *Exec) Branch(c *Term) bool {
	if c.IsConst() {
		return c.B
	}
	// decided syntactically by the path condition
	if x.pcHas(c) {
		return true
	}
	if x.pcHas(Not(c)) {
		return false
	}
	x.branches++
	if x.local != nil {
		return x.branchLocal(c)
	}
	if x.pos < len(x.decisions) {
		d := x.decisions[x.pos]
		x.pos++
		if d == 1 {
			x.pc = append(x.pc, c)
			return true
		}
		x.pc = append(x.pc, Not(c))
		return false
	}
	// a literal over a boolean symbol the path condition does not mention is free
	if lit := c; true {
		if lit.Op == "not" {
			lit = lit.Args[0]
		}
		if lit.Op == "sym" && lit.Sort == SBool && !x.pcMentions(lit.S) {
			x.forkSites["sym:"+lit.S]++
			alt := make([]int8, len(x.decisions)+1)
			copy(alt, x.decisions)
			alt[len(x.decisions)] = 0
			x.newWork = append(x.newWork, alt)
			x.decisions = append(x.decisions, 1)
			x.pos++
			x.pc = append(x.pc, c)
			return true
		}
	}
	rt, _ := x.check(c)
	rf := Sat
	if rt != Unsat {
		// the path condition is satisfiable, so if c is impossible its negation is possible
		rf, _ = x.check(Not(c))
	}
	tOK := rt != Unsat
	fOK := rf != Unsat
	if rt == Unknown {
		x.inconclusive = append(x.inconclusive, "branch feasibility unknown (kept): "+trunc(c.Key(), 120))
	}
	if rf == Unknown {
		x.inconclusive = append(x.inconclusive, "branch feasibility unknown (kept): "+trunc(Not(c).Key(), 120))
	}
	switch {
	case tOK && fOK:
		if x.curSite == "" {
			x.forkSites["cond:"+trunc(c.Key(), 70)]++
		} else {
			x.forkSites[x.curSite]++
		}
		alt := make([]int8, len(x.decisions)+1)
		copy(alt, x.decisions)
		alt[len(x.decisions)] = 0
		x.newWork = append(x.newWork, alt)
		x.decisions = append(x.decisions, 1)
		x.pos++
		x.pc = append(x.pc, c)
		return true
	case tOK:
		x.decisions = append(x.decisions, 1)
		x.pos++
		x.pc = append(x.pc, c)
		return true
	case fOK:
		x.decisions = append(x.decisions, 0)
		x.pos++
		x.pc = append(x.pc, Not(c))
		return false
	}
	panic(&pathAbort{kind: "infeasible"})
}

func trunc(s string, n int) string {
	if len(s) > n {
		return s[:n] + "…"
	}
	return s
}

// Choose forks n ways on a fresh integer symbol (recorded in the model).
func (x *Exec) Choose(name string, n int) int {
	s := x.sym(name, SInt)
	for i := 0; i < n-1; i++ {
		if x.Branch(Eq(s, IntC(int64(i)))) {
			return i
		}
	}
	x.assume(Eq(s, IntC(int64(n-1))))
	return n - 1
}

// ---- memory

func (x *Exec) load(p *Pointer) Value {
	if p.IsNil() {
		panic(&guestPanic{msg: "nil pointer dereference"})
	}
	return navigate(p.Cell.V, p.Path)
}

func (x *Exec) store(p *Pointer, v Value) {
	if p.IsNil() {
		panic(&guestPanic{msg: "nil pointer dereference (store)"})
	}
	if x.local != nil && p.Cell.ID <= x.local.cellMark {
		panic(&localAbort{"store inside a summarised predicate"})
	}
	// a write to provider-lifetime state: unsynchronised writes always count (two
	// requests would race); writes under a lock / inside a sync.Once count when the
	// written value depends on the request (another request would then see it)
	if p.Cell.Epoch < x.epoch && x.epoch > 0 && !x.E.isHarnessFn(x.curFn) && (x.syncDepth == 0 || x.dependsOnRequest(v)) {
		where := "?"
		if x.curFn != nil {
			where = x.curFn.String()
		}
		x.sharedWrites = append(x.sharedWrites, fmt.Sprintf("write to provider-lifetime object %q in %s", p.Cell.Name, where))
	}
	p.Cell.V = update(p.Cell.V, p.Path, v)
}

func (x *Exec) global(g *ssa.Global) *Cell {
	if c, ok := x.globals[g]; ok {
		return c
	}
	t := g.Type().(*types.Pointer).Elem()
	c := &Cell{V: zeroValue(t), Typ: t, Epoch: -1, Name: g.String()}
	if g.Pkg != nil && g.Pkg.Pkg.Path() == "encoding/base64" {
		switch g.Name() {
		case "StdEncoding":
			c.V = &Native{Kind: "b64encoding", Data: "b64"}
		case "URLEncoding":
			c.V = &Native{Kind: "b64encoding", Data: "b64url"}
		case "RawStdEncoding":
			c.V = &Native{Kind: "b64encoding", Data: "b64raw"}
		case "RawURLEncoding":
			c.V = &Native{Kind: "b64encoding", Data: "b64rawurl"}
		}
	}
	x.globals[g] = c
	return c
}

// force resolves lazy references (lazy initialisation).
func (x *Exec) force(v Value) Value {
	l, ok := v.(*LazyRef)
	if !ok {
		switch v.(type) {
		case *formVals, *headerVals:
			return x.forceVals(v)
		}
		return v
	}
	if l.Resolved != nil {
		return l.Resolved
	}
	if x.local != nil {
		panic(&localAbort{"lazy initialisation inside a summarised predicate"})
	}
	switch u := l.Typ.Underlying().(type) {
	case *types.Pointer:
		present := x.sym(l.Name+"?", SBool)
		if x.Branch(present) {
			c := x.newCell(x.lazyValue(u.Elem(), l.Name), u.Elem(), l.Name)
			l.Resolved = &Pointer{Cell: c}
		} else {
			l.Resolved = NilPtr
		}
	case *types.Slice:
		n := x.sym(l.Name+"#", SInt)
		max := l.MaxLen
		if max <= 0 {
			max = x.E.LazySliceMax
		}
		x.bounds["lazy slice "+trimIdx(l.Name)] = max
		x.assume(Le(IntC(0), n))
		x.assume(Le(n, IntC(int64(max))))
		ln := max
		for i := 0; i < max; i++ {
			if x.Branch(Eq(n, IntC(int64(i)))) {
				ln = i
				break
			}
		}
		if ln == 0 {
			l.Resolved = &SliceV{}
		} else {
			e := make([]Value, ln)
			for i := range e {
				e[i] = x.lazyValue(u.Elem(), fmt.Sprintf("%s[%d]", l.Name, i))
			}
			c := x.newCell(&ArrayV{E: e}, nil, l.Name)
			l.Resolved = &SliceV{Arr: c, Len: ln, Cap: ln}
		}
	default:
		panic(abortf("lazy value of type %s", l.Typ))
	}
	return l.Resolved
}

func trimIdx(s string) string {
	// a.b[1].c -> a.b[].c
	var sb strings.Builder
	in := false
	for _, c := range s {
		if c == '[' {
			in = true
			sb.WriteRune(c)
			continue
		}
		if c == ']' {
			in = false
		}
		if !in {
			sb.WriteRune(c)
		}
	}
	return sb.String()
}

// lazyValue builds an arbitrary value of type t whose leaves are named symbols.
func (x *Exec) lazyValue(t types.Type, name string) Value {
	if n, ok := t.(*types.Named); ok && n.Obj().Pkg() != nil {
		if n.Obj().Pkg().Path() == "encoding/xml" && n.Obj().Name() == "Name" {
			return zeroValue(t)
		}
	}
	switch u := t.Underlying().(type) {
	case *types.Basic:
		switch {
		case u.Info()&types.IsBoolean != 0:
			return x.sym(name, SBool)
		case u.Info()&types.IsString != 0:
			return x.sym(name, SStr)
		case u.Info()&types.IsNumeric != 0:
			return x.sym(name, SInt)
		}
	case *types.Struct:
		f := make([]Value, u.NumFields())
		for i := range f {
			tag := u.Tag(i)
			if strings.Contains(tag, ",innerxml") || strings.Contains(tag, `xml:"-"`) {
				f[i] = zeroValue(u.Field(i).Type())
				continue
			}
			f[i] = x.lazyValue(u.Field(i).Type(), name+"."+u.Field(i).Name())
			if u.Field(i).Name() == "X509Certificate" {
				if t, ok := f[i].(*Term); ok {
					x.setAttr(t, "certtext") // certificate text: see vrtCertText
				}
			}
		}
		return &StructV{F: f}
	case *types.Pointer:
		return &LazyRef{Name: name, Typ: t}
	case *types.Slice:
		if isByteSlice(t) {
			return &BytesV{T: x.sym(name, SStr)}
		}
		return &LazyRef{Name: name, Typ: t}
	case *types.Array:
		e := make([]Value, u.Len())
		for i := range e {
			e[i] = x.lazyValue(u.Elem(), fmt.Sprintf("%s[%d]", name, i))
		}
		return &ArrayV{E: e}
	}
	return zeroValue(t)
}

// ---- constants

func (x *Exec) constValue(c *ssa.Const) Value {
	t := c.Type()
	if c.Value == nil {
		return zeroValue(t)
	}
	switch u := t.Underlying().(type) {
	case *types.Basic:
		switch {
		case u.Info()&types.IsBoolean != 0:
			return BoolC(constant.BoolVal(c.Value))
		case u.Info()&types.IsString != 0:
			return StrC(constant.StringVal(c.Value))
		case u.Info()&types.IsInteger != 0:
			if v, ok := constant.Int64Val(constant.ToInt(c.Value)); ok {
				return IntC(v)
			}
			if v, ok := constant.Uint64Val(constant.ToInt(c.Value)); ok {
				return IntC(int64(v))
			}
		case u.Info()&types.IsFloat != 0:
			f, _ := constant.Float64Val(c.Value)
			return IntC(int64(f))
		}
	}
	panic(abortf("constant of type %s", t))
}

// ---- operand access

func (x *Exec) get(fr *frame, v ssa.Value) Value {
	switch a := v.(type) {
	case *ssa.Const:
		return x.constValue(a)
	case *ssa.Global:
		return &Pointer{Cell: x.global(a)}
	case *ssa.Function:
		return &FuncV{Fn: a}
	case *ssa.Builtin:
		return &FuncV{Name: "builtin:" + a.Name()}
	case *ssa.FreeVar:
		for i, fv := range fr.fn.FreeVars {
			if fv == a {
				return fr.env[i]
			}
		}
		panic(abortf("internal: free var not found"))
	}
	val, ok := fr.locals[v]
	if !ok {
		panic(abortf("internal: value %s (%T) not computed in %s", v.Name(), v, fr.fn))
	}
	return val
}

func (x *Exec) getF(fr *frame, v ssa.Value) Value { return x.force(x.get(fr, v)) }

func (x *Exec) term(v Value) *Term {
	if t, ok := v.(*Term); ok {
		return t
	}
	panic(abortf("internal: expected scalar, got %T", v))
}

func (x *Exec) concreteInt(v Value, what string) int {
	t := x.term(v)
	if !t.IsConst() {
		panic(abortf("symbolic integer where a concrete one is needed (%s)", what))
	}
	return int(t.I)
}

// ---- the interpreter

func (x *Exec) siteOf(fr *frame, in ssa.Instruction) string {
	pos := in.Pos()
	if !pos.IsValid() {
		// find a nearby position
		if v, ok := in.(ssa.Value); ok {
			pos = v.Pos()
		}
	}
	fn := fr.fn.String()
	if pos.IsValid() {
		p := x.E.Fset.Position(pos)
		line := x.E.sourceLine(p.Filename, p.Line)
		return fn + ":" + line
	}
	return fn + ":" + in.String()
}

func (e *Engine) sourceLine(file string, line int) string {
	e.srcMu.Lock()
	defer e.srcMu.Unlock()
	if e.srcLines == nil {
		e.srcLines = map[string][]string{}
	}
	ls, ok := e.srcLines[file]
	if !ok {
		if data, err := os.ReadFile(file); err == nil {
			ls = strings.Split(string(data), "\n")
		} else if ov, ok := Overlay[file]; ok {
			ls = strings.Split(string(ov), "\n")
		}
		e.srcLines[file] = ls
	}
	if line-1 < len(ls) && line >= 1 {
		return strings.Join(strings.Fields(ls[line-1]), " ")
	}
	return fmt.Sprintf("line %d", line)
}

// Overlay holds the harness sources injected into the package under test.
var Overlay = map[string][]byte{}

func (x *Exec) CallFunction(fn *ssa.Function, args []Value, env []Value, caller *frame, site ssa.Instruction) (ret Value) {
	if fn.Blocks == nil {
		panic(abortf("call of function without body: %s", fn))
	}
	x.funcsSeen[fn.String()] = countInstrs(fn)
	savedFn := x.curFn
	x.curFn = fn
	defer func() { x.curFn = savedFn }()
	fr := &frame{fn: fn, locals: make(map[ssa.Value]Value, 32), env: env, visits: map[*ssa.BasicBlock]int{}, caller: caller, site: site}
	for i, p := range fn.Params {
		fr.locals[p] = args[i]
	}
	defer func() {
		if r := recover(); r != nil {
			if gp, ok := r.(*guestPanic); ok && len(fr.defers) > 0 {
				x.runDefers(fr)
				panic(gp)
			}
			panic(r)
		}
	}()
	block := fn.Blocks[0]
	var prev *ssa.BasicBlock
	for {
		fr.visits[block]++
		if fr.visits[block] > x.E.LoopBound {
			panic(abortf("unwinding bound %d reached in %s", x.E.LoopBound, fn))
		}
		var next *ssa.BasicBlock
		for _, in := range block.Instrs {
			x.steps++
			if x.steps > x.E.StepBound {
				panic(abortf("step bound reached"))
			}
			switch i := in.(type) {
			case *ssa.Phi:
				if fr.merge != nil && prev == fr.merge.from {
					var vt, ve Value
					for k, p := range block.Preds {
						if p == fr.merge.thenBlock {
							vt = x.get(fr, i.Edges[k])
						}
						if p == fr.merge.from {
							ve = x.get(fr, i.Edges[k])
						}
					}
					tt, ok1 := vt.(*Term)
					te, ok2 := ve.(*Term)
					if !ok1 || !ok2 {
						panic(abortf("internal: if-conversion of a non-scalar phi"))
					}
					fr.locals[i] = Ite(fr.merge.cond, tt, te)
					break
				}
				for k, p := range block.Preds {
					if p == prev {
						fr.locals[i] = x.get(fr, i.Edges[k])
						break
					}
				}
			case *ssa.Jump:
				next = block.Succs[0]
			case *ssa.If:
				if x.E.Debug {
					x.curSite = x.siteOf(fr, in)
				}
				c := x.term(x.getF(fr, i.Cond))
				if !c.IsConst() && x.E.IfConvert {
					if join := x.ifConvert(fr, block, c); join != nil {
						// the triangle was executed speculatively; phis at the join select by c
						prev, block = nil, nil
						next = join
						fr.merge = &mergeInfo{cond: c, thenBlock: blockSucc0(i), from: i.Block()}
						break
					}
				}
				if x.Branch(c) {
					next = block.Succs[0]
				} else {
					next = block.Succs[1]
				}
			case *ssa.Return:
				switch len(i.Results) {
				case 0:
					return nil
				case 1:
					return x.get(fr, i.Results[0])
				}
				tv := make(TupleV, len(i.Results))
				for k, r := range i.Results {
					tv[k] = x.get(fr, r)
				}
				return tv
			case *ssa.Panic:
				v := x.getF(fr, i.X)
				panic(&guestPanic{msg: "panic(" + x.describe(v) + ")", site: x.siteOf(fr, in)})
			case *ssa.RunDefers:
				x.runDefers(fr)
			default:
				if x.E.Debug {
					if _, isCall := in.(*ssa.Call); isCall {
						x.curSite = x.siteOf(fr, in)
					}
				}
				func() {
					defer func() {
						if r := recover(); r != nil {
							if gp, ok := r.(*guestPanic); ok && gp.site == "" {
								gp.site = x.siteOf(fr, in)
							}
							panic(r)
						}
					}()
					x.step(fr, in)
				}()
			}
			if next != nil {
				break
			}
		}
		if next == nil {
			panic(abortf("internal: block without terminator in %s", fn))
		}
		if block == nil {
			// if-converted: arrive at the join as if from the branching block
			prev, block = fr.merge.from, next
			continue
		}
		if fr.merge != nil && block != fr.merge.from {
			fr.merge = nil
		}
		prev, block = block, next
	}
}

func countInstrs(fn *ssa.Function) int {
	n := 0
	for _, b := range fn.Blocks {
		n += len(b.Instrs)
	}
	return n
}

func (x *Exec) runDefers(fr *frame) {
	for len(fr.defers) > 0 {
		d := fr.defers[len(fr.defers)-1]
		fr.defers = fr.defers[:len(fr.defers)-1]
		x.callValue(fr, d.fn, d.args, d.call, nil)
	}
}

func (x *Exec) describe(v Value) string {
	switch a := v.(type) {
	case *Term:
		return a.Key()
	case *IfaceV:
		if a.T == nil {
			return "nil"
		}
		if e, ok := a.V.(*ErrObj); ok {
			return "error(" + e.Msg.Key() + ")"
		}
		return x.describe(a.V)
	}
	return fmt.Sprintf("%T", v)
}

func (x *Exec) step(fr *frame, in ssa.Instruction) {
	switch i := in.(type) {
	case *ssa.DebugRef:
	case *ssa.Alloc:
		t := i.Type().(*types.Pointer).Elem()
		c := x.newCell(zeroValue(t), t, i.Comment)
		fr.locals[i] = &Pointer{Cell: c}
	case *ssa.UnOp:
		fr.locals[i] = x.unop(fr, i)
	case *ssa.BinOp:
		fr.locals[i] = x.binop(i.Op, x.getF(fr, i.X), x.getF(fr, i.Y), i.X.Type())
	case *ssa.Store:
		p, ok := x.getF(fr, i.Addr).(*Pointer)
		if !ok {
			panic(abortf("store through %T", x.get(fr, i.Addr)))
		}
		x.store(p, x.get(fr, i.Val))
	case *ssa.FieldAddr:
		p, ok := x.getF(fr, i.X).(*Pointer)
		if !ok {
			panic(abortf("field address of %T in %s", x.get(fr, i.X), fr.fn))
		}
		if p.IsNil() {
			panic(&guestPanic{msg: "nil pointer dereference"})
		}
		fr.locals[i] = p.sub(i.Field)
	case *ssa.Field:
		s, ok := x.getF(fr, i.X).(*StructV)
		if !ok {
			panic(abortf("field of %T", x.get(fr, i.X)))
		}
		fr.locals[i] = s.F[i.Field]
	case *ssa.IndexAddr:
		fr.locals[i] = x.indexAddr(fr, i)
	case *ssa.Index:
		fr.locals[i] = x.index(fr, i)
	case *ssa.Lookup:
		fr.locals[i] = x.lookup(fr, i)
	case *ssa.Slice:
		fr.locals[i] = x.slice(fr, i)
	case *ssa.MakeSlice:
		n := x.concreteInt(x.getF(fr, i.Len), "make len")
		c := x.concreteInt(x.getF(fr, i.Cap), "make cap")
		if isByteSlice(i.Type()) {
			fr.locals[i] = &BytesV{T: StrC(strings.Repeat("\x00", n))}
			return
		}
		et := i.Type().Underlying().(*types.Slice).Elem()
		e := make([]Value, c)
		for k := range e {
			e[k] = zeroValue(et)
		}
		cell := x.newCell(&ArrayV{E: e}, nil, "makeslice")
		fr.locals[i] = &SliceV{Arr: cell, Len: n, Cap: c}
	case *ssa.MakeMap:
		fr.locals[i] = &MapV{M: &MapObj{Epoch: x.epoch}}
	case *ssa.MapUpdate:
		m, ok := x.getF(fr, i.Map).(*MapV)
		if !ok {
			panic(abortf("map update on %T", x.get(fr, i.Map)))
		}
		x.mapUpdate(m, x.getF(fr, i.Key), x.get(fr, i.Value))
	case *ssa.MakeClosure:
		env := make([]Value, len(i.Bindings))
		for k, b := range i.Bindings {
			env[k] = x.get(fr, b)
		}
		fr.locals[i] = &FuncV{Fn: i.Fn.(*ssa.Function), Env: env}
	case *ssa.MakeInterface:
		fr.locals[i] = &IfaceV{T: i.X.Type(), V: x.get(fr, i.X)}
	case *ssa.ChangeInterface:
		fr.locals[i] = x.get(fr, i.X)
	case *ssa.ChangeType:
		fr.locals[i] = x.get(fr, i.X)
	case *ssa.Convert:
		fr.locals[i] = x.convert(x.getF(fr, i.X), i.X.Type(), i.Type())
	case *ssa.TypeAssert:
		fr.locals[i] = x.typeAssert(fr, i)
	case *ssa.Extract:
		t, ok := x.get(fr, i.Tuple).(TupleV)
		if !ok {
			panic(abortf("extract from %T (%s)", x.get(fr, i.Tuple), i.Tuple))
		}
		fr.locals[i] = t[i.Index]
	case *ssa.Call:
		fr.locals[i] = x.doCall(fr, &i.Call, i)
	case *ssa.Defer:
		fn, args := x.prepareCall(fr, &i.Call)
		fr.defers = append(fr.defers, deferred{fn: fn, args: args, call: &i.Call})
	case *ssa.Range:
		fr.locals[i] = x.makeRange(x.getF(fr, i.X))
	case *ssa.Next:
		fr.locals[i] = x.rangeNext(x.get(fr, i.Iter), i.IsString)
	case *ssa.Go, *ssa.Send, *ssa.Select, *ssa.MakeChan:
		panic(abortf("concurrency instruction %T in %s (not encoded)", in, fr.fn))
	default:
		panic(abortf("unsupported instruction %T in %s", in, fr.fn))
	}
}

func (x *Exec) unop(fr *frame, i *ssa.UnOp) Value {
	v := x.getF(fr, i.X)
	switch i.Op {
	case token.MUL:
		p, ok := v.(*Pointer)
		if !ok {
			panic(abortf("load through %T in %s", v, fr.fn))
		}
		return x.load(p)
	case token.NOT:
		return Not(x.term(v))
	case token.SUB:
		return Sub(IntC(0), x.term(v))
	case token.XOR:
		t := x.term(v)
		if t.IsConst() {
			return IntC(^t.I)
		}
	}
	panic(abortf("unsupported unary op %s", i.Op))
}

func isNilValue(v Value) (isNil bool, known bool) {
	switch a := v.(type) {
	case *Pointer:
		return a.IsNil(), true
	case *SliceV:
		return a.Arr == nil, true
	case *BytesV:
		return a.Nil, true
	case *MapV:
		return a.M == nil, true
	case *IfaceV:
		return a.T == nil, true
	case *FuncV:
		return a.Fn == nil && a.Native == nil && a.Name == "", true
	case *Native:
		return false, true
	}
	return false, false
}

func (x *Exec) valuesEqual(a, b Value, t types.Type) *Term {
	a, b = x.force(a), x.force(b)
	if ta, ok := a.(*Term); ok {
		if tb, ok := b.(*Term); ok {
			return Eq(ta, tb)
		}
	}
	// nil comparisons
	if n, ok := isNilValue(b); ok && n {
		if an, ok := isNilValue(a); ok {
			return BoolC(an)
		}
	}
	if n, ok := isNilValue(a); ok && n {
		if bn, ok := isNilValue(b); ok {
			return BoolC(bn)
		}
	}
	switch av := a.(type) {
	case *Pointer:
		if bv, ok := b.(*Pointer); ok {
			return BoolC(samePointer(av, bv))
		}
		return FalseT
	case *Native:
		return BoolC(a == b)
	case *IfaceV:
		bv, ok := b.(*IfaceV)
		if !ok {
			return FalseT
		}
		if av.T == nil || bv.T == nil {
			return BoolC(av.T == nil && bv.T == nil)
		}
		if !types.Identical(av.T, bv.T) {
			return FalseT
		}
		if ea, ok := av.V.(*ErrObj); ok {
			eb, ok := bv.V.(*ErrObj)
			return BoolC(ok && ea == eb)
		}
		return x.valuesEqual(av.V, bv.V, av.T)
	case *StructV:
		bv, ok := b.(*StructV)
		if !ok {
			return FalseT
		}
		r := TrueT
		for k := range av.F {
			r = And(r, x.valuesEqual(av.F[k], bv.F[k], nil))
		}
		return r
	case *ArrayV:
		bv := b.(*ArrayV)
		r := TrueT
		for k := range av.E {
			r = And(r, x.valuesEqual(av.E[k], bv.E[k], nil))
		}
		return r
	case *TimeV:
		if bv, ok := b.(*TimeV); ok {
			return Eq(av.NS, bv.NS)
		}
	case *ErrObj:
		return BoolC(a == b)
	}
	panic(abortf("comparison of %T and %T", a, b))
}

func (x *Exec) binop(op token.Token, a, b Value, t types.Type) Value {
	switch op {
	case token.EQL:
		return x.valuesEqual(a, b, t)
	case token.NEQ:
		return Not(x.valuesEqual(a, b, t))
	}
	ta, oka := a.(*Term)
	tb, okb := b.(*Term)
	if !oka || !okb {
		panic(abortf("binary op %s on %T,%T", op, a, b))
	}
	if ta.Sort == SStr {
		switch op {
		case token.ADD:
			return Concat(ta, tb)
		case token.LSS, token.GTR, token.LEQ, token.GEQ:
			if ta.IsConst() && tb.IsConst() {
				switch op {
				case token.LSS:
					return BoolC(ta.S < tb.S)
				case token.GTR:
					return BoolC(ta.S > tb.S)
				case token.LEQ:
					return BoolC(ta.S <= tb.S)
				default:
					return BoolC(ta.S >= tb.S)
				}
			}
		}
		panic(abortf("string op %s on symbolic operands", op))
	}
	if ta.Sort == SBool {
		switch op {
		case token.AND, token.LAND:
			return And(ta, tb)
		case token.OR, token.LOR:
			return Or(ta, tb)
		}
		panic(abortf("bool op %s", op))
	}
	switch op {
	case token.ADD:
		return Add(ta, tb)
	case token.SUB:
		return Sub(ta, tb)
	case token.LSS:
		return Lt(ta, tb)
	case token.LEQ:
		return Le(ta, tb)
	case token.GTR:
		return Lt(tb, ta)
	case token.GEQ:
		return Le(tb, ta)
	}
	if ta.IsConst() && tb.IsConst() {
		p, q := ta.I, tb.I
		switch op {
		case token.MUL:
			return IntC(p * q)
		case token.QUO:
			if q == 0 {
				panic(&guestPanic{msg: "integer divide by zero"})
			}
			return IntC(p / q)
		case token.REM:
			if q == 0 {
				panic(&guestPanic{msg: "integer divide by zero"})
			}
			return IntC(p % q)
		case token.AND:
			return IntC(p & q)
		case token.OR:
			return IntC(p | q)
		case token.XOR:
			return IntC(p ^ q)
		case token.SHL:
			return IntC(p << uint(q))
		case token.SHR:
			return IntC(p >> uint(q))
		case token.AND_NOT:
			return IntC(p &^ q)
		}
	}
	if op == token.MUL && tb.IsConst() {
		// multiplication by a constant as repeated addition is avoided: uninterpreted
		return &Term{Op: "uf", Sort: SInt, S: fmt.Sprintf("mul%d", tb.I), Args: []*Term{ta}}
	}
	panic(abortf("integer op %s on symbolic operands", op))
}

func (x *Exec) convert(v Value, from, to types.Type) Value {
	fu, tu := from.Underlying(), to.Underlying()
	if tb, ok := tu.(*types.Basic); ok {
		if tb.Info()&types.IsString != 0 {
			switch a := v.(type) {
			case *BytesV:
				return a.T
			case *Term:
				if a.Sort == SStr {
					return a
				}
				if a.IsConst() {
					return StrC(string(rune(a.I)))
				}
			}
			panic(abortf("conversion %s -> string", from))
		}
		if tb.Info()&types.IsNumeric != 0 {
			if t, ok := v.(*Term); ok && t.Sort == SInt {
				if t.IsConst() {
					return IntC(wrapInt(t.I, tb))
				}
				return t
			}
		}
	}
	if isByteSlice(to) {
		if t, ok := v.(*Term); ok && t.Sort == SStr {
			return &BytesV{T: t}
		}
		if b, ok := v.(*BytesV); ok {
			return b
		}
	}
	if _, ok := tu.(*types.Pointer); ok {
		return v
	}
	if types.Identical(fu, tu) {
		return v
	}
	panic(abortf("conversion %s -> %s", from, to))
}

func wrapInt(v int64, b *types.Basic) int64 {
	switch b.Kind() {
	case types.Int8:
		return int64(int8(v))
	case types.Int16:
		return int64(int16(v))
	case types.Int32:
		return int64(int32(v))
	case types.Uint8:
		return int64(uint8(v))
	case types.Uint16:
		return int64(uint16(v))
	case types.Uint32:
		return int64(uint32(v))
	}
	return v
}

func (x *Exec) indexAddr(fr *frame, i *ssa.IndexAddr) Value {
	base := x.getF(fr, i.X)
	idx := x.concreteInt(x.getF(fr, i.Index), "index")
	switch b := base.(type) {
	case *SliceV:
		if idx < 0 || idx >= b.Len {
			panic(&guestPanic{msg: fmt.Sprintf("index out of range [%d] with length %d", idx, b.Len)})
		}
		return (&Pointer{Cell: b.Arr}).sub(b.Off + idx)
	case *Pointer:
		if b.IsNil() {
			panic(&guestPanic{msg: "nil pointer dereference"})
		}
		arr, ok := x.load(b).(*ArrayV)
		if !ok {
			panic(abortf("index address into %T", x.load(b)))
		}
		if idx < 0 || idx >= len(arr.E) {
			panic(&guestPanic{msg: "index out of range"})
		}
		return b.sub(idx)
	}
	panic(abortf("index address of %T in %s", base, fr.fn))
}

func (x *Exec) index(fr *frame, i *ssa.Index) Value {
	base := x.getF(fr, i.X)
	switch b := base.(type) {
	case *ArrayV:
		idx := x.concreteInt(x.getF(fr, i.Index), "index")
		if idx < 0 || idx >= len(b.E) {
			panic(&guestPanic{msg: "index out of range"})
		}
		return b.E[idx]
	case *Term:
		return x.stringIndex(b, x.term(x.getF(fr, i.Index)))
	}
	panic(abortf("index of %T", base))
}

func (x *Exec) stringIndex(s, idx *Term) Value {
	if s.IsConst() && idx.IsConst() {
		if idx.I < 0 || idx.I >= int64(len(s.S)) {
			panic(&guestPanic{msg: "string index out of range"})
		}
		return IntC(int64(s.S[idx.I]))
	}
	inRange := And(Le(IntC(0), idx), Lt(idx, Len(s)))
	if !x.Branch(inRange) {
		panic(&guestPanic{msg: "string index out of range"})
	}
	// character code as an integer: str.to_code
	return &Term{Op: "uf", Sort: SInt, S: "code", Args: []*Term{&Term{Op: "at", Sort: SStr, Args: []*Term{s, idx}}}}
}

func (x *Exec) lookup(fr *frame, i *ssa.Lookup) Value {
	base := x.getF(fr, i.X)
	switch b := base.(type) {
	case *MapV:
		et := i.X.Type().Underlying().(*types.Map).Elem()
		v, ok := x.mapLookup(b, x.getF(fr, i.Index), et)
		if i.CommaOk {
			return TupleV{v, ok}
		}
		return v
	case *Term:
		return x.stringIndex(b, x.term(x.getF(fr, i.Index)))
	}
	panic(abortf("lookup in %T", base))
}

func (x *Exec) keyEq(a, b Value) *Term {
	return x.valuesEqual(a, b, nil)
}

// mapLookup forks on key equality and on symbolic presence.
func (x *Exec) mapLookup(m *MapV, key Value, et types.Type) (Value, *Term) {
	if m.M != nil && m.M.Lazy != nil {
		kt, ok := key.(*Term)
		if !ok || !kt.IsConst() {
			panic(abortf("lookup in a request map with a symbolic key"))
		}
		var ent *MapEntry
		for _, e := range m.M.Entries {
			if k, ok := e.Key.(*Term); ok && k.IsConst() && k.S == kt.S {
				ent = e
			}
		}
		if ent == nil {
			ent = x.lazyEntry(m.M, kt.S)
		}
		if x.Branch(ent.Present) {
			return ent.Val, TrueT
		}
		if et == nil {
			return &SliceV{}, FalseT
		}
		return zeroValue(et), FalseT
	}
	if m.M != nil {
		if m.M.Kind == "header" {
			key = x.canonHeader(key)
		}
		for _, e := range m.M.Entries {
			if x.Branch(x.keyEq(e.Key, key)) {
				if x.Branch(e.Present) {
					return e.Val, TrueT
				}
				if et == nil {
					return &SliceV{}, FalseT
				}
				return zeroValue(et), FalseT
			}
		}
	}
	if et == nil {
		return &SliceV{}, FalseT
	}
	return zeroValue(et), FalseT
}

func (x *Exec) canonHeader(key Value) Value { return key }

func (x *Exec) mapUpdate(m *MapV, key Value, val Value) {
	if m.M == nil {
		panic(&guestPanic{msg: "assignment to entry in nil map"})
	}
	if m.M.Epoch < x.epoch && x.epoch > 0 {
		x.sharedWrites = append(x.sharedWrites, "write to provider-lifetime map")
	}
	for _, e := range m.M.Entries {
		if x.Branch(x.keyEq(e.Key, key)) {
			e.Val = val
			e.Present = TrueT
			return
		}
	}
	m.M.Entries = append(m.M.Entries, &MapEntry{Key: key, Present: TrueT, Val: val})
}

func (x *Exec) slice(fr *frame, i *ssa.Slice) Value {
	base := x.getF(fr, i.X)
	var lo, hi *Term
	if i.Low != nil {
		lo = x.term(x.getF(fr, i.Low))
	}
	if i.High != nil {
		hi = x.term(x.getF(fr, i.High))
	}
	switch b := base.(type) {
	case *Term: // string
		if lo == nil {
			lo = IntC(0)
		}
		if hi == nil {
			hi = Len(b)
		}
		ok := And(Le(IntC(0), lo), Le(lo, hi), Le(hi, Len(b)))
		if !x.Branch(ok) {
			panic(&guestPanic{msg: "slice bounds out of range"})
		}
		return Substr(b, lo, Sub(hi, lo))
	case *BytesV:
		if lo == nil {
			lo = IntC(0)
		}
		if hi == nil {
			hi = Len(b.T)
		}
		ok := And(Le(IntC(0), lo), Le(lo, hi), Le(hi, Len(b.T)))
		if !x.Branch(ok) {
			panic(&guestPanic{msg: "slice bounds out of range"})
		}
		return &BytesV{T: Substr(b.T, lo, Sub(hi, lo))}
	case *SliceV:
		l, h := 0, b.Len
		if lo != nil {
			l = x.concreteInt(lo, "slice low")
		}
		if hi != nil {
			h = x.concreteInt(hi, "slice high")
		}
		if l < 0 || h < l || h > b.Cap {
			panic(&guestPanic{msg: "slice bounds out of range"})
		}
		if b.Arr == nil {
			return &SliceV{}
		}
		return &SliceV{Arr: b.Arr, Off: b.Off + l, Len: h - l, Cap: b.Cap - l}
	case *Pointer: // *array
		arr, ok := x.load(b).(*ArrayV)
		if !ok {
			panic(abortf("slice of pointer to %T", x.load(b)))
		}
		l, h := 0, len(arr.E)
		if lo != nil {
			l = x.concreteInt(lo, "slice low")
		}
		if hi != nil {
			h = x.concreteInt(hi, "slice high")
		}
		if l < 0 || h < l || h > len(arr.E) {
			panic(&guestPanic{msg: "slice bounds out of range"})
		}
		if isByteSlice(i.Type()) {
			// []byte{...} literal: an immutable byte string
			var sb strings.Builder
			for _, e := range arr.E[l:h] {
				t, ok := e.(*Term)
				if !ok || !t.IsConst() {
					panic(abortf("byte array with symbolic elements"))
				}
				sb.WriteByte(byte(t.I))
			}
			return &BytesV{T: StrC(sb.String())}
		}
		if len(b.Path) != 0 {
			panic(abortf("slice of interior array"))
		}
		return &SliceV{Arr: b.Cell, Off: l, Len: h - l, Cap: len(arr.E) - l}
	}
	panic(abortf("slice of %T", base))
}

func (x *Exec) typeAssert(fr *frame, i *ssa.TypeAssert) Value {
	v := x.getF(fr, i.X)
	iv, ok := v.(*IfaceV)
	if !ok {
		panic(abortf("type assertion on %T", v))
	}
	var res Value
	okb := false
	if iv.T != nil {
		if types.IsInterface(i.AssertedType) {
			if types.Implements(iv.T, i.AssertedType.Underlying().(*types.Interface)) || x.nativeImplements(iv, i.AssertedType) {
				res, okb = iv, true
			}
		} else if types.Identical(iv.T, i.AssertedType) {
			res, okb = iv.V, true
		}
	}
	if i.CommaOk {
		if !okb {
			res = zeroValue(i.AssertedType)
		}
		return TupleV{res, BoolC(okb)}
	}
	if !okb {
		d := "nil"
		if iv.T != nil {
			d = iv.T.String()
		}
		panic(&guestPanic{msg: fmt.Sprintf("interface conversion: interface is %s, not %s", d, i.AssertedType)})
	}
	return res
}

func (x *Exec) nativeImplements(iv *IfaceV, t types.Type) bool {
	if _, isErr := iv.V.(*ErrObj); isErr {
		return t.String() == "error"
	}
	// a library object kept as a native: it implements the interface when the
	// engine has a contract for methods of it
	if n, ok := iv.V.(*Native); ok {
		it, ok := t.Underlying().(*types.Interface)
		if !ok || it.NumMethods() == 0 {
			return ok
		}
		// (a method without contract ends the path as inconclusive when it is called)
		for i := 0; i < it.NumMethods(); i++ {
			if x.E.NativeMeth[n.Kind+"."+it.Method(i).Name()] != nil {
				return true
			}
		}
		return false
	}
	return false
}

// ---- ranges

type rangeIter struct {
	m    *MapObj
	keys []*MapEntry
	pos  int
	str  *Term
}

func (x *Exec) makeRange(v Value) Value {
	switch a := v.(type) {
	case *MapV:
		it := &rangeIter{}
		if a.M != nil {
			it.m = a.M
			for _, e := range a.M.Entries {
				if x.Branch(e.Present) {
					it.keys = append(it.keys, e)
				}
			}
			// every iteration order: fork on a permutation choice
			if n := len(it.keys); n > 1 {
				perm := x.Choose(fmt.Sprintf("maporder!%d", x.nextID()), factorial(n))
				it.keys = permute(it.keys, perm)
			}
		}
		return &Native{Kind: "rangeiter", Data: it}
	case *Term:
		if a.IsConst() {
			return &Native{Kind: "rangeiter", Data: &rangeIter{str: a}}
		}
	}
	panic(abortf("range over %T", v))
}

func (x *Exec) nextID() int { x.idSeq++; return x.idSeq }

func factorial(n int) int {
	r := 1
	for i := 2; i <= n; i++ {
		r *= i
	}
	return r
}

func permute(es []*MapEntry, k int) []*MapEntry {
	src := append([]*MapEntry{}, es...)
	var out []*MapEntry
	for n := len(src); n > 0; n-- {
		i := k % n
		k /= n
		out = append(out, src[i])
		src = append(src[:i], src[i+1:]...)
	}
	return out
}

func (x *Exec) rangeNext(v Value, isString bool) Value {
	it := v.(*Native).Data.(*rangeIter)
	if it.str != nil {
		s := it.str.S
		if it.pos >= len(s) {
			return TupleV{FalseT, IntC(0), IntC(0)}
		}
		r, w := decodeRune(s[it.pos:])
		p := it.pos
		it.pos += w
		return TupleV{TrueT, IntC(int64(p)), IntC(int64(r))}
	}
	if it.pos >= len(it.keys) {
		return TupleV{FalseT, nil, nil}
	}
	e := it.keys[it.pos]
	it.pos++
	return TupleV{TrueT, e.Key, e.Val}
}

func decodeRune(s string) (rune, int) {
	for i, r := range s {
		_ = i
		return r, len(string(r))
	}
	return 0, 1
}

// ---- calls

func (x *Exec) prepareCall(fr *frame, c *ssa.CallCommon) (Value, []Value) {
	var args []Value
	if c.IsInvoke() {
		recv := x.getF(fr, c.Value)
		args = append(args, recv)
		for _, a := range c.Args {
			args = append(args, x.get(fr, a))
		}
		return nil, args
	}
	fn := x.getF(fr, c.Value)
	for _, a := range c.Args {
		args = append(args, x.get(fr, a))
	}
	return fn, args
}

func (x *Exec) doCall(fr *frame, c *ssa.CallCommon, site ssa.Instruction) Value {
	fn, args := x.prepareCall(fr, c)
	return x.callValue(fr, fn, args, c, site)
}

func (x *Exec) callValue(fr *frame, fn Value, args []Value, c *ssa.CallCommon, site ssa.Instruction) Value {
	if c != nil && c.IsInvoke() {
		return x.invoke(fr, args[0], c.Method.Name(), c.Method.Pkg(), args[1:], site)
	}
	f, ok := fn.(*FuncV)
	if !ok {
		panic(abortf("call of %T", fn))
	}
	return x.callFuncV(fr, f, args, site)
}

func (x *Exec) callFuncV(fr *frame, f *FuncV, args []Value, site ssa.Instruction) Value {
	if f.Native != nil {
		return f.Native(x, args)
	}
	if strings.HasPrefix(f.Name, "builtin:") {
		return x.builtin(fr, f.Name[8:], args, site)
	}
	if f.Fn == nil {
		panic(&guestPanic{msg: "call of nil function"})
	}
	return x.callSSA(fr, f.Fn, args, f.Env, site)
}

func (x *Exec) callSSA(fr *frame, fn *ssa.Function, args []Value, env []Value, site ssa.Instruction) Value {
	name := fn.String()
	if m, ok := x.E.Models[name]; ok {
		x.contracts[name] = true
		for i := range args {
			args[i] = x.force(args[i])
		}
		return m(x, fr, args)
	}
	if x.E.isReal(fn) {
		if x.E.Summaries {
			if r, ok := x.trySummarize(fr, fn, args, env, site); ok {
				return r
			}
		}
		return x.CallFunction(fn, args, env, fr, site)
	}
	if fn.Synthetic == "package initializer" {
		return nil // initialisers of packages outside the module are not run
	}
	// synthetic wrappers (bound methods, thunks) of real or modelled functions
	if fn.Synthetic != "" && fn.Blocks != nil {
		return x.CallFunction(fn, args, env, fr, site)
	}
	panic(abortf("no contract for call of %s (from %s)", name, fr.fn))
}

func (e *Engine) isReal(fn *ssa.Function) bool {
	if fn.Pkg != nil && fn.Pkg.Pkg != nil {
		p := fn.Pkg.Pkg.Path()
		if p == e.ModulePath || strings.HasPrefix(p, e.ModulePath+"/") {
			return fn.Blocks != nil
		}
	} else if fn.Parent() != nil {
		return e.isReal(fn.Parent())
	}
	name := fn.String()
	for _, p := range e.AllowReal {
		if strings.HasPrefix(name, p) {
			return fn.Blocks != nil
		}
	}
	if fn.Parent() != nil {
		return e.isReal(fn.Parent())
	}
	return false
}

func (x *Exec) invoke(fr *frame, recv Value, method string, pkg *types.Package, args []Value, site ssa.Instruction) Value {
	if n, isN := recv.(*Native); isN {
		recv = &IfaceV{T: nativeType, V: n}
	}
	if p, isP := recv.(*Pointer); isP && !p.IsNil() && p.Cell.Typ != nil && len(p.Path) == 0 {
		recv = &IfaceV{T: types.NewPointer(p.Cell.Typ), V: p}
	}
	iv, ok := recv.(*IfaceV)
	if !ok {
		panic(abortf("invoke %s on %T", method, recv))
	}
	if iv.T == nil {
		panic(&guestPanic{msg: "nil pointer dereference (method call on nil interface)"})
	}
	switch v := iv.V.(type) {
	case *Native:
		key := v.Kind + "." + method
		if m, ok := x.E.NativeMeth[key]; ok {
			x.contracts["native "+key] = true
			all := append([]Value{v}, args...)
			for i := range all {
				all[i] = x.force(all[i])
			}
			return m(x, fr, all)
		}
		panic(abortf("no contract for method %s", key))
	case *ErrObj:
		switch method {
		case "Error":
			return v.Msg
		case "Unwrap":
			if v.Wrapped == nil {
				return NilIface
			}
			return v.Wrapped
		}
		panic(abortf("method %s on engine error", method))
	}
	ms := x.E.Prog.MethodSets.MethodSet(iv.T)
	sel := ms.Lookup(pkg, method)
	if sel == nil {
		panic(abortf("method %s not found on %s", method, iv.T))
	}
	fn := x.E.Prog.MethodValue(sel)
	if fn == nil {
		panic(abortf("no method value for %s.%s", iv.T, method))
	}
	return x.callSSA(fr, fn, append([]Value{iv.V}, args...), nil, site)
}

func (x *Exec) builtin(fr *frame, name string, args []Value, site ssa.Instruction) Value {
	for i := range args {
		args[i] = x.force(args[i])
	}
	switch name {
	case "len":
		switch a := args[0].(type) {
		case *Term:
			return x.lenOf(a)
		case *SliceV:
			return IntC(int64(a.Len))
		case *BytesV:
			return x.lenOf(a.T)
		case *MapV:
			if a.M == nil {
				return IntC(0)
			}
			n := IntC(0)
			for _, e := range a.M.Entries {
				n = Add(n, Ite(e.Present, IntC(1), IntC(0)))
			}
			return n
		case *ArrayV:
			return IntC(int64(len(a.E)))
		case *Pointer:
			if arr, ok := x.load(a).(*ArrayV); ok {
				return IntC(int64(len(arr.E)))
			}
		}
	case "cap":
		switch a := args[0].(type) {
		case *SliceV:
			return IntC(int64(a.Cap))
		case *BytesV:
			return Len(a.T)
		}
	case "append":
		return x.appendSlice(args[0], args[1])
	case "copy":
		dst, ok1 := args[0].(*SliceV)
		src, ok2 := args[1].(*SliceV)
		if ok1 && ok2 {
			n := dst.Len
			if src.Len < n {
				n = src.Len
			}
			for k := 0; k < n; k++ {
				v := src.Arr.V.(*ArrayV).E[src.Off+k]
				x.store((&Pointer{Cell: dst.Arr}).sub(dst.Off+k), v)
			}
			return IntC(int64(n))
		}
	case "delete":
		m := args[0].(*MapV)
		if m.M != nil {
			for _, e := range m.M.Entries {
				if x.Branch(x.keyEq(e.Key, args[1])) {
					e.Present = FalseT
					break
				}
			}
		}
		return nil
	case "print", "println":
		return nil
	case "recover":
		return NilIface
	}
	panic(abortf("builtin %s on %T", name, args[0]))
}

func (x *Exec) appendSlice(a, b Value) Value {
	if ab, ok := a.(*BytesV); ok {
		switch bb := b.(type) {
		case *BytesV:
			return &BytesV{T: Concat(ab.T, bb.T)}
		case *Term:
			return &BytesV{T: Concat(ab.T, bb)}
		}
		panic(abortf("append to []byte of %T", b))
	}
	as, ok := a.(*SliceV)
	if !ok {
		panic(abortf("append to %T", a))
	}
	bs, ok := b.(*SliceV)
	if !ok {
		panic(abortf("append of %T", b))
	}
	if bs.Len == 0 {
		return as
	}
	var src []Value
	barr := bs.Arr.V.(*ArrayV)
	for k := 0; k < bs.Len; k++ {
		src = append(src, barr.E[bs.Off+k])
	}
	if as.Arr != nil && as.Len+bs.Len <= as.Cap {
		for k, v := range src {
			x.store((&Pointer{Cell: as.Arr}).sub(as.Off+as.Len+k), v)
		}
		return &SliceV{Arr: as.Arr, Off: as.Off, Len: as.Len + bs.Len, Cap: as.Cap}
	}
	ncap := as.Cap * 2
	if ncap < as.Len+bs.Len {
		ncap = as.Len + bs.Len
	}
	e := make([]Value, ncap)
	if as.Arr != nil {
		aarr := as.Arr.V.(*ArrayV)
		for k := 0; k < as.Len; k++ {
			e[k] = aarr.E[as.Off+k]
		}
	}
	copy(e[as.Len:], src)
	var zero Value
	if len(src) > 0 {
		zero = zeroLike(src[0])
	}
	for k := as.Len + bs.Len; k < ncap; k++ {
		e[k] = zero
	}
	c := x.newCell(&ArrayV{E: e}, nil, "append")
	return &SliceV{Arr: c, Off: 0, Len: as.Len + bs.Len, Cap: ncap}
}

func zeroLike(v Value) Value {
	switch a := v.(type) {
	case *Term:
		switch a.Sort {
		case SBool:
			return FalseT
		case SInt:
			return IntC(0)
		}
		return StrC("")
	case *Pointer, *LazyRef:
		return NilPtr
	case *StructV:
		f := make([]Value, len(a.F))
		for i := range f {
			f[i] = zeroLike(a.F[i])
		}
		return &StructV{F: f}
	case *IfaceV:
		return NilIface
	case *FuncV:
		return &FuncV{}
	case *SliceV:
		return &SliceV{}
	case *BytesV:
		return &BytesV{T: StrC(""), Nil: true}
	case *MapV:
		return &MapV{}
	}
	return v
}

// sliceElems returns the element values of a slice value.
func (x *Exec) sliceElems(v Value) []Value {
	v = x.force(v)
	s, ok := v.(*SliceV)
	if !ok {
		panic(abortf("expected slice, got %T", v))
	}
	if s.Arr == nil {
		return nil
	}
	arr := s.Arr.V.(*ArrayV)
	out := make([]Value, s.Len)
	copy(out, arr.E[s.Off:s.Off+s.Len])
	return out
}

func (x *Exec) makeSlice(elems []Value) *SliceV {
	if elems == nil {
		return &SliceV{}
	}
	c := x.newCell(&ArrayV{E: elems}, nil, "slice")
	return &SliceV{Arr: c, Len: len(elems), Cap: len(elems)}
}

// RunInit executes the package initialisers of the module's own packages.
func (x *Exec) RunInit() {
	for _, fn := range x.E.moduleInits {
		x.runInitFn(fn)
	}
}

func (x *Exec) runInitFn(fn *ssa.Function) {
	defer func() {
		if r := recover(); r != nil {
			if a, ok := r.(*pathAbort); ok {
				panic(abortf("package init %s: %s", fn.Pkg.Pkg.Path(), a.reason))
			}
			panic(r)
		}
	}()
	x.CallFunction(fn, nil, nil, nil, nil)
}

// isHarnessFn: is fn defined in a harness source file (zz_verif_*.go)?
func (e *Engine) isHarnessFn(fn *ssa.Function) bool {
	if fn == nil {
		return true
	}
	e.hmu.Lock()
	defer e.hmu.Unlock()
	if e.harnessFn == nil {
		e.harnessFn = map[*ssa.Function]bool{}
	}
	if v, ok := e.harnessFn[fn]; ok {
		return v
	}
	f := fn
	for f.Parent() != nil {
		f = f.Parent()
	}
	v := false
	if f.Pos().IsValid() {
		v = strings.Contains(e.Fset.Position(f.Pos()).Filename, "zz_verif")
	} else if f.Synthetic != "" && strings.Contains(f.String(), ".vrt") {
		v = true
	}
	e.harnessFn[fn] = v
	return v
}

// pcMentions: does any term of the path condition mention symbol name?
func (x *Exec) pcMentions(name string) bool {
	for x.pcScanned < len(x.pc) {
		collectSyms(x.pc[x.pcScanned], x.pcSyms)
		x.pcScanned++
	}
	return x.pcSyms[name]
}

func collectSyms(t *Term, into map[string]bool) {
	if t.Op == "sym" {
		into[t.S] = true
		return
	}
	for _, a := range t.Args {
		collectSyms(a, into)
	}
}

func (x *Exec) pcHas(c *Term) bool {
	for x.pcKeyed < len(x.pc) {
		t := x.pc[x.pcKeyed]
		x.pcKeys[t.Key()] = true
		if t.Op == "and" {
			for _, a := range t.Args {
				x.pcKeys[a.Key()] = true
			}
		}
		x.pcKeyed++
	}
	return x.pcKeys[c.Key()]
}

func blockSucc0(i *ssa.If) *ssa.BasicBlock { return i.Block().Succs[0] }

var pureCallees = map[string]bool{
	"net/url.QueryEscape": true,
}

// ifConvert recognises the triangle  if c { x = x + pure(...) }  over strings:
// the then-block has the branching block as its only predecessor, consists of
// string concatenations and calls of total, pure functions, and jumps to the
// else-target, whose phis are all scalar. It is then executed speculatively and
// the join's phis become ite terms, instead of forking the path.
func (x *Exec) ifConvert(fr *frame, b *ssa.BasicBlock, c *Term) *ssa.BasicBlock {
	t, e := b.Succs[0], b.Succs[1]
	if len(t.Preds) != 1 || len(t.Succs) != 1 || t.Succs[0] != e || len(t.Instrs) > 12 {
		return nil
	}
	for _, in := range t.Instrs {
		switch i := in.(type) {
		case *ssa.BinOp:
			if i.Op != token.ADD {
				return nil
			}
			if bt, ok := i.Type().Underlying().(*types.Basic); !ok || bt.Info()&types.IsString == 0 {
				return nil
			}
		case *ssa.Call:
			callee := i.Call.StaticCallee()
			if callee == nil || !pureCallees[callee.String()] {
				return nil
			}
		case *ssa.Jump, *ssa.DebugRef:
		default:
			return nil
		}
	}
	for _, in := range e.Instrs {
		ph, ok := in.(*ssa.Phi)
		if !ok {
			break
		}
		if bt, ok := ph.Type().Underlying().(*types.Basic); !ok || bt.Info()&(types.IsString|types.IsBoolean|types.IsInteger) == 0 {
			return nil
		}
	}
	for _, in := range t.Instrs {
		switch in.(type) {
		case *ssa.Jump, *ssa.DebugRef:
		default:
			x.step(fr, in)
		}
	}
	return e
}

func (x *Exec) branchLocal(c *Term) bool {
	l := x.local
	if l.pos < len(l.decisions) {
		d := l.decisions[l.pos]
		l.pos++
		if d == 1 {
			x.pc = append(x.pc, c)
			return true
		}
		x.pc = append(x.pc, Not(c))
		return false
	}
	// no solver calls inside a summary: both sides are kept unless the path
	// condition decides the test syntactically; an infeasible combination only
	// contributes an unsatisfiable disjunct to the result
	alt := make([]int8, len(l.decisions)+1)
	copy(alt, l.decisions)
	alt[len(l.decisions)] = 0
	l.newWork = append(l.newWork, alt)
	l.decisions = append(l.decisions, 1)
	l.pos++
	x.pc = append(x.pc, c)
	return true
}

var summaryFnRe = regexp.MustCompile(`(VerificationNecessary|signaturePostProvided|certificateCheckNecessary)\$1$`)

// trySummarize runs a side-effect-free predicate over all its internal paths
// and returns its result as one boolean term. ok == false: not applicable (the
// caller then executes the function normally, forking as usual).
func (x *Exec) trySummarize(fr *frame, fn *ssa.Function, args []Value, env []Value, site ssa.Instruction) (res Value, ok bool) {
	if x.local != nil || !summaryFnRe.MatchString(fn.String()) {
		return nil, false
	}
	if sig := fn.Signature; sig.Results().Len() != 1 || !types.Identical(sig.Results().At(0).Type().Underlying(), types.Typ[types.Bool]) {
		return nil, false
	}
	savedPC := x.pc
	savedLen := len(x.pc)
	savedIncl := len(x.inconclusive)
	mark := x.cellSeq
	restore := func() {
		x.pc = savedPC[:savedLen]
		x.pcKeyed, x.pcScanned = 0, 0
		x.pcKeys, x.pcSyms = map[string]bool{}, map[string]bool{}
		x.local = nil
	}
	type outcome struct {
		cond *Term
		val  *Term
	}
	var outs []outcome
	work := [][]int8{{}}
	aborted := false
	for len(work) > 0 && !aborted {
		dec := work[len(work)-1]
		work = work[:len(work)-1]
		x.local = &localCtx{decisions: dec, cellMark: mark}
		x.pc = append([]*Term{}, savedPC[:savedLen]...)
		x.pcKeyed, x.pcScanned = 0, 0
		x.pcKeys, x.pcSyms = map[string]bool{}, map[string]bool{}
		func() {
			defer func() {
				if r := recover(); r != nil {
					switch a := r.(type) {
					case *localAbort:
						aborted = true
					case *guestPanic:
						aborted = true // let the ordinary execution find and report it
					case *pathAbort:
						if a.kind != "infeasible" {
							aborted = true
						}
					default:
						panic(r)
					}
				}
			}()
			v := x.CallFunction(fn, args, env, fr, site)
			t, isT := v.(*Term)
			if !isT || t.Sort != SBool {
				aborted = true
				return
			}
			outs = append(outs, outcome{And(x.pc[savedLen:]...), t})
			work = append(work, x.local.newWork...)
		}()
		if len(outs) > 64 {
			aborted = true
		}
	}
	restore()
	if aborted {
		x.inconclusive = x.inconclusive[:savedIncl]
		return nil, false
	}
	r := FalseT
	for _, o := range outs {
		r = Or(r, And(o.cond, o.val))
	}
	x.summaries++
	return r, true
}

// replayHints are constraints that make a model robust under native replay
// (DESIGN §3.8): timestamps at least one hour away from every clock reading,
// all clock readings of the run within one second. They are only used to pick
// a model, never to decide a verdict.
func (x *Exec) replayHints() []*Term {
	const hour = int64(3600) * 1_000_000_000
	var hs []*Term
	for _, ts := range x.timeSyms {
		for _, c := range x.clocks {
			hs = append(hs, Implies(ts.OK, Or(Le(ts.NS, Sub(c, IntC(hour))), Le(Add(c, IntC(hour)), ts.NS))))
		}
		hs = append(hs, Implies(ts.OK, And(Le(IntC(-100*365*24*hour), ts.NS), Le(ts.NS, IntC(100*365*24*hour)))))
	}
	if n := len(x.clocks); n > 1 {
		hs = append(hs, Le(Sub(x.clocks[n-1], x.clocks[0]), IntC(1_000_000_000)))
	}
	if len(x.clocks) > 0 {
		hs = append(hs, Le(x.clocks[0], IntC(hour)))
	}
	return hs
}

// checkModel looks for a replay-robust model first.
func (x *Exec) checkModel(extra ...*Term) (Result, Model, bool) {
	if hs := x.replayHints(); len(hs) > 0 {
		if r, m := x.checkM(append(append([]*Term{}, extra...), hs...)...); r == Sat {
			return r, m, true
		}
	}
	r, m := x.checkM(extra...)
	return r, m, false
}
