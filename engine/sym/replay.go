package sym

import (
	"context"
	"encoding/base64"
	"encoding/json"
	"fmt"
	"os"
	"os/exec"
	"path/filepath"
	"strings"
	"time"
)

type ReplayCase struct {
	Harness string                 `json:"harness"`
	Tier    string                 `json:"tier"`
	Prop    string                 `json:"prop"`
	Model   map[string]replayValue `json:"model"`
}

type replayValue struct {
	S *string `json:"s,omitempty"`
	I *int64  `json:"i,omitempty"`
	B *bool   `json:"b,omitempty"`
}

type ReplayResult struct {
	Failed   []string `json:"failed"`
	Regions  []string `json:"regions"`
	Outcomes []string `json:"outcomes"`
	Covers   []string `json:"covers"`
	Invalid  string   `json:"invalid"`
	Panic    string   `json:"panic"`
}

func MakeCase(harness, tier, prop string, m Model) ReplayCase {
	c := ReplayCase{Harness: harness, Tier: tier, Prop: prop, Model: map[string]replayValue{}}
	for k, v := range m {
		switch a := v.(type) {
		case string:
			s := base64.StdEncoding.EncodeToString([]byte(a))
			c.Model[k] = replayValue{S: &s}
		case int64:
			i := a
			c.Model[k] = replayValue{I: &i}
		case bool:
			b := a
			c.Model[k] = replayValue{B: &b}
		}
	}
	return c
}

// SetAmplify marks a case for the amplified native attempt.
func SetAmplify(c *ReplayCase, mode int) {
	m := int64(mode)
	c.Model["vrt.amplify"] = replayValue{I: &m}
}

// WriteReplayDir writes cases.json, overlay.json and a run.sh into dir.
func WriteReplayDir(dir string, cases []ReplayCase) error {
	if err := os.MkdirAll(dir, 0o755); err != nil {
		return err
	}
	data, _ := json.MarshalIndent(cases, "", " ")
	if err := os.WriteFile(filepath.Join(dir, "cases.json"), data, 0o644); err != nil {
		return err
	}
	files, _ := filepath.Glob(filepath.Join(HarnessDir, "*.go"))
	repl := map[string]string{}
	for _, f := range files {
		base := filepath.Base(f)
		if !strings.HasSuffix(base, "_test.go") {
			base = strings.TrimSuffix(base, ".go") + "_test.go"
		}
		repl[filepath.Join(HarnessDest, base)] = f
	}
	ov, _ := json.MarshalIndent(map[string]interface{}{"Replace": repl}, "", " ")
	if err := os.WriteFile(filepath.Join(dir, "overlay.json"), ov, 0o644); err != nil {
		return err
	}
	sh := fmt.Sprintf("#!/bin/sh\n# replays the solver models in cases.json against the real build of /repo\ncd /repo && VRT_CASES=%s/cases.json VRT_RESULTS=${VRT_RESULTS:-%s/results.json} GOFLAGS=-mod=mod GOPROXY=off go test -vet=off -count=1 -run '^TestVrtReplay$' -overlay %s/overlay.json ./pkg/provider\n", dir, dir, dir)
	return os.WriteFile(filepath.Join(dir, "run.sh"), []byte(sh), 0o755)
}

// RunReplay runs the cases natively (real net/http, encoding/xml, crypto).
func RunReplay(dir string, cases []ReplayCase) ([]ReplayResult, string, error) {
	if err := WriteReplayDir(dir, cases); err != nil {
		return nil, "", err
	}
	ctx, cancel := context.WithTimeout(context.Background(), 15*time.Minute)
	defer cancel()
	cmd := exec.CommandContext(ctx, "go", "test", "-vet=off", "-count=1", "-run", "^TestVrtReplay$", "-overlay", filepath.Join(dir, "overlay.json"), "./pkg/provider")
	cmd.Dir = RepoDir
	res := filepath.Join(dir, "results.json")
	os.Remove(res)
	cmd.Env = append(os.Environ(), "GOFLAGS=-mod=mod", "GOPROXY=off", "VRT_CASES="+filepath.Join(dir, "cases.json"), "VRT_RESULTS="+res)
	out, err := cmd.CombinedOutput()
	data, rerr := os.ReadFile(res)
	if rerr != nil {
		return nil, string(out), fmt.Errorf("replay produced no results (%v): %s", err, trunc(string(out), 2000))
	}
	var results []ReplayResult
	if jerr := json.Unmarshal(data, &results); jerr != nil {
		return nil, string(out), jerr
	}
	if len(results) != len(cases) {
		return nil, string(out), fmt.Errorf("replay result count mismatch")
	}
	return results, string(out), nil
}
