package sym

import (
	"bufio"
	"fmt"
	"io"
	"os"
	"sort"
	"os/exec"
	"strconv"
	"strings"
	"sync"
	"sync/atomic"
	"time"
)

// Result of a satisfiability query.
type Result int

const (
	Unsat Result = iota
	Sat
	Unknown
)

func (r Result) String() string { return [...]string{"unsat", "sat", "unknown"}[r] }

// Model maps symbol names to concrete values (bool, int64, string).
type Model map[string]interface{}

// ground axioms instantiated per uninterpreted-function application.
var ufAxioms = map[string]func(app *Term) []*Term{
	"rsasign": func(a *Term) []*Term { return []*Term{Not(Eq(a, StrC("")))} },
	"digest":  func(a *Term) []*Term { return []*Term{Not(Eq(a, StrC("")))} },
	"sha1":    func(a *Term) []*Term { return []*Term{Not(Eq(a, StrC("")))} },
	"sha256":  func(a *Term) []*Term { return []*Term{Not(Eq(a, StrC("")))} },
	"b64": func(a *Term) []*Term {
		x := a.Args[0]
		return []*Term{
			Eq(UF("unb64", a), x),
			InRe(a, `(re.* (re.union (re.range "A" "Z") (re.range "a" "z") (re.range "0" "9") (str.to_re "+") (str.to_re "/") (str.to_re "=")))`),
			Eq(Eq(a, StrC("")), Eq(x, StrC(""))),
		}
	},
	"qe": func(a *Term) []*Term {
		x := a.Args[0]
		return []*Term{
			Eq(UF("unqe", a), x),
			InRe(a, `(re.* (re.union (re.range "A" "Z") (re.range "a" "z") (re.range "0" "9") (str.to_re "_") (str.to_re ".") (str.to_re "~") (str.to_re "%") (str.to_re "+") (str.to_re "-")))`),
			Eq(Eq(a, StrC("")), Eq(x, StrC(""))),
		}
	},
	"deflate": func(a *Term) []*Term {
		x := a.Args[0]
		return []*Term{
			Eq(UF("inflate", a), x),
			Not(Eq(a, StrC(""))),
		}
	},
}

func init() {
	ufAxioms["htmlesc"] = func(a *Term) []*Term {
		v := a.Args[0]
		special := `(re.++ re.all (re.union (str.to_re "&") (str.to_re "<") (str.to_re ">") (str.to_re "\u{22}") (str.to_re "'")) re.all)`
		return []*Term{Eq(Eq(a, v), Not(InRe(v, special))), Le(Len(v), Len(a))}
	}
	ufAxioms["crnorm"] = func(a *Term) []*Term {
		v := a.Args[0]
		return []*Term{Eq(Eq(a, v), Not(Contains(v, StrC("\r")))), Not(Contains(a, StrC("\r")))}
	}
	ufAxioms["fmtverbs"] = func(a *Term) []*Term {
		f := a.Args[0]
		return []*Term{Eq(Eq(a, f), Not(Contains(f, StrC("%"))))}
	}
	for name := range lenAbstract {
		name := name
		ufAxioms["len."+name] = func(a *Term) []*Term {
			x := a.Args[0]
			if name == "deflate" {
				return []*Term{Le(IntC(1), a)}
			}
			// encodings do not shrink, and only the empty string encodes to the empty string
			return []*Term{Le(Len(x), a), Eq(Eq(a, IntC(0)), Eq(Len(x), IntC(0)))}
		}
	}
}

// SlowLog, when set, receives every query that took longer than 2 s.
var SlowLog = os.Getenv("VRT_SLOWLOG")

// Solver is one live solver process fed over stdin.
type Solver struct {
	Name    string
	argv    []string
	prelude string
	cmd     *exec.Cmd
	in      io.WriteCloser
	out     *bufio.Reader
	lines   chan string
	dead    bool

	stack    []sframe
	declSyms map[string]Sort
	declUFs  map[string]bool
	axDone   map[string]bool

	timeoutMs int
	curLimit  int // limit in force in the live process (0: configured)
}

func solverSpec(name string, timeoutMs int) ([]string, string) {
	switch name {
	case "z3-new":
		return []string{"z3-new", "-in"}, fmt.Sprintf("(set-option :produce-models true)\n(set-option :timeout %d)\n", timeoutMs)
	case "z3":
		return []string{"z3", "-in"}, fmt.Sprintf("(set-option :produce-models true)\n(set-option :timeout %d)\n(set-logic ALL)\n", timeoutMs)
	case "cvc5":
		return []string{"cvc5", "--incremental", "--produce-models", "--strings-exp", "--lang=smt2", fmt.Sprintf("--tlimit-per=%d", timeoutMs)}, "(set-logic ALL)\n"
	}
	panic("unknown solver " + name)
}

func NewSolver(name string, timeoutMs int) *Solver {
	argv, prelude := solverSpec(name, timeoutMs)
	s := &Solver{Name: name, argv: argv, prelude: prelude, timeoutMs: timeoutMs}
	return s
}

func (s *Solver) start() error {
	s.cmd = exec.Command(s.argv[0], s.argv[1:]...)
	in, err := s.cmd.StdinPipe()
	if err != nil {
		return err
	}
	out, err := s.cmd.StdoutPipe()
	if err != nil {
		return err
	}
	s.cmd.Stderr = s.cmd.Stdout
	if err := s.cmd.Start(); err != nil {
		return err
	}
	s.in = in
	s.out = bufio.NewReaderSize(out, 1<<16)
	s.lines = make(chan string, 64)
	s.dead = false
	go func(r *bufio.Reader, ch chan string) {
		for {
			l, err := r.ReadString('\n')
			if l != "" {
				ch <- strings.TrimRight(l, "\r\n")
			}
			if err != nil {
				close(ch)
				return
			}
		}
	}(s.out, s.lines)
	_, err = io.WriteString(s.in, s.prelude)
	return err
}

func (s *Solver) Close() {
	if s.cmd != nil && s.cmd.Process != nil {
		s.in.Close()
		s.cmd.Process.Kill()
		s.cmd.Wait()
	}
	s.cmd = nil
}

func (s *Solver) readLine(deadline time.Time) (string, bool) {
	select {
	case l, ok := <-s.lines:
		if !ok {
			s.dead = true
			return "", false
		}
		return l, true
	case <-time.After(time.Until(deadline)):
		return "", false
	}
}

// Stats are global counters reported in the evidence.
type SolverStats struct {
	Sat, Unsat, Unknown, Errors int64
	Nanos                       int64
}

var statsMu sync.Mutex
var Stats = map[string]*SolverStats{}

func stat(name string) *SolverStats {
	statsMu.Lock()
	defer statsMu.Unlock()
	st := Stats[name]
	if st == nil {
		st = &SolverStats{}
		Stats[name] = st
	}
	return st
}

type sframe struct {
	key  string
	syms []string
	ufs  []string
	apps []string
}

// emitTerm renders one assertion plus the declarations and ground axioms it
// needs that are not yet in scope; what it declared is recorded in fr.
func (s *Solver) emitTerm(sb *strings.Builder, t *Term, fr *sframe) {
	d := NewDecls()
	var body strings.Builder
	var emit func(t *Term)
	pendingApps := map[string]*Term{}
	emit = func(t *Term) {
		txt := t.SMT(d)
		body.WriteString("(assert " + txt + ")\n")
		for k, app := range d.ufApps {
			if !s.axDone[k] {
				pendingApps[k] = app
			}
		}
	}
	emit(t)
	for len(pendingApps) > 0 {
		var keys []string
		for k := range pendingApps {
			keys = append(keys, k)
		}
		sort.Strings(keys)
		for _, k := range keys {
			app := pendingApps[k]
			delete(pendingApps, k)
			if s.axDone[k] {
				continue
			}
			s.axDone[k] = true
			fr.apps = append(fr.apps, k)
			if ax := ufAxioms[app.S]; ax != nil {
				for _, a := range ax(app) {
					if !a.IsTrue() {
						emit(a)
					}
				}
			}
		}
	}
	for _, n := range d.SymNames() {
		if _, ok := s.declSyms[n]; !ok {
			s.declSyms[n] = d.syms[n]
			fr.syms = append(fr.syms, n)
			sb.WriteString("(declare-const " + smtSym(n) + " " + d.syms[n].String() + ")\n")
		}
	}
	var ufs []string
	for n := range d.ufs {
		ufs = append(ufs, n)
	}
	sort.Strings(ufs)
	for _, n := range ufs {
		if !s.declUFs[n] {
			s.declUFs[n] = true
			fr.ufs = append(fr.ufs, n)
			sb.WriteString(d.ufs[n] + "\n")
		}
	}
	sb.WriteString(body.String())
}

func (s *Solver) undo(fr *sframe) {
	for _, n := range fr.syms {
		delete(s.declSyms, n)
	}
	for _, n := range fr.ufs {
		delete(s.declUFs, n)
	}
	for _, k := range fr.apps {
		delete(s.axDone, k)
	}
}

func (s *Solver) resetState() {
	s.stack = nil
	s.declSyms = map[string]Sort{}
	s.declUFs = map[string]bool{}
	s.axDone = map[string]bool{}
	s.curLimit = 0
}

// Check decides base ∧ extra. The base (a path condition) is kept asserted in
// the live solver process, one push level per term, and only the difference
// to the previous query is sent. With wantModel the values of all symbols in
// scope are returned on sat.
func (s *Solver) Check(base []*Term, extra []*Term, wantModel bool, hardTimeout time.Duration) (Result, Model, string) {
	return s.CheckLimit(base, extra, wantModel, hardTimeout, 0)
}

// CheckLimit is Check with a per-query time limit in ms (0: the solver's configured limit).
func (s *Solver) CheckLimit(base []*Term, extra []*Term, wantModel bool, hardTimeout time.Duration, limitMs int) (Result, Model, string) {
	if s.cmd == nil || s.dead {
		if s.cmd != nil {
			s.Close()
		}
		if err := s.start(); err != nil {
			return Unknown, nil, "start: " + err.Error()
		}
		s.resetState()
	}
	var q strings.Builder
	if limitMs != s.curLimit {
		ms := limitMs
		if ms == 0 {
			ms = s.timeoutMs
		}
		if s.Name == "cvc5" {
			fmt.Fprintf(&q, "(set-option :tlimit-per %d)\n", ms)
		} else {
			fmt.Fprintf(&q, "(set-option :timeout %d)\n", ms)
		}
		s.curLimit = limitMs
	}
	k := 0
	for k < len(s.stack) && k < len(base) && s.stack[k].key == base[k].Key() {
		k++
	}
	if n := len(s.stack) - k; n > 0 {
		fmt.Fprintf(&q, "(pop %d)\n", n)
		for i := len(s.stack) - 1; i >= k; i-- {
			s.undo(&s.stack[i])
		}
		s.stack = s.stack[:k]
	}
	for i := k; i < len(base); i++ {
		fr := sframe{key: base[i].Key()}
		q.WriteString("(push 1)\n")
		s.emitTerm(&q, base[i], &fr)
		s.stack = append(s.stack, fr)
	}
	tmp := sframe{}
	q.WriteString("(push 1)\n")
	for _, e := range extra {
		s.emitTerm(&q, e, &tmp)
	}
	q.WriteString("(check-sat)\n")
	start := time.Now()
	st := stat(s.Name)
	defer func() {
		el := time.Since(start)
		atomic.AddInt64(&st.Nanos, int64(el))
		if SlowLog != "" && el > 2*time.Second {
			if f, err := os.OpenFile(SlowLog, os.O_APPEND|os.O_CREATE|os.O_WRONLY, 0o644); err == nil {
				fmt.Fprintf(f, ";;;; %s %.1fs\n", s.Name, el.Seconds())
				for _, b := range base {
					fmt.Fprintf(f, "; base %s\n", trunc(b.Key(), 400))
				}
				for _, b := range extra {
					fmt.Fprintf(f, "; extra %s\n", trunc(b.Key(), 400))
				}
				fmt.Fprintf(f, "%s\n", RenderStandalone(base, extra))
				f.Close()
			}
		}
	}()
	fail := func(why string) (Result, Model, string) {
		s.Close()
		s.resetState()
		return Unknown, nil, why
	}
	if _, err := io.WriteString(s.in, q.String()); err != nil {
		atomic.AddInt64(&st.Errors, 1)
		return fail("write: " + err.Error())
	}
	deadline := time.Now().Add(hardTimeout)
	var res Result = Unknown
	reason := ""
	for {
		l, ok := s.readLine(deadline)
		if !ok {
			atomic.AddInt64(&st.Unknown, 1)
			return fail("timeout/died")
		}
		l = strings.TrimSpace(l)
		if l == "" {
			continue
		}
		if l == "sat" {
			res = Sat
			break
		}
		if l == "unsat" {
			res = Unsat
			break
		}
		if l == "unknown" || l == "timeout" {
			res = Unknown
			reason = l
			break
		}
		if strings.HasPrefix(l, "(error") {
			atomic.AddInt64(&st.Errors, 1)
			return fail("solver error: " + l + "\nQUERY:\n" + q.String())
		}
	}
	var model Model
	if res == Sat && wantModel {
		var names []string
		for n := range s.declSyms {
			names = append(names, n)
		}
		sort.Strings(names)
		if len(names) == 0 {
			model = Model{}
		} else {
			var gv strings.Builder
			gv.WriteString("(get-value (")
			for _, n := range names {
				gv.WriteString(smtSym(n) + " ")
			}
			gv.WriteString("))\n")
			io.WriteString(s.in, gv.String())
			txt, ok := s.readSexp(deadline)
			if !ok {
				atomic.AddInt64(&st.Errors, 1)
				return fail("model read failed")
			}
			m, err := parseModel(txt, s.declSyms)
			if err != nil {
				atomic.AddInt64(&st.Errors, 1)
				return fail("model parse: " + err.Error() + " in " + txt)
			}
			model = m
		}
	}
	io.WriteString(s.in, "(pop 1)\n")
	s.undo(&tmp)
	switch res {
	case Sat:
		atomic.AddInt64(&st.Sat, 1)
	case Unsat:
		atomic.AddInt64(&st.Unsat, 1)
	default:
		atomic.AddInt64(&st.Unknown, 1)
		if s.Name != "cvc5" {
			// after a timeout z3 may still be busy: restart to resynchronise
			s.Close()
			s.resetState()
		}
	}
	return res, model, reason
}

// RenderStandalone renders base ∧ extra as one self-contained SMT-LIB script (debugging aid).
func RenderStandalone(base, extra []*Term) string {
	t := &Solver{}
	t.resetState()
	var sb strings.Builder
	sb.WriteString("(set-logic ALL)\n")
	fr := sframe{}
	for _, b := range base {
		t.emitTerm(&sb, b, &fr)
	}
	for _, b := range extra {
		t.emitTerm(&sb, b, &fr)
	}
	sb.WriteString("(check-sat)\n")
	return sb.String()
}

func (s *Solver) readSexp(deadline time.Time) (string, bool) {
	var sb strings.Builder
	depth := 0
	started := false
	inStr := false
	inBar := false
	for {
		l, ok := s.readLine(deadline)
		if !ok {
			return "", false
		}
		if !started && strings.HasPrefix(strings.TrimSpace(l), "(error") {
			return "", false
		}
		sb.WriteString(l)
		sb.WriteByte('\n')
		for i := 0; i < len(l); i++ {
			c := l[i]
			switch {
			case inStr:
				if c == '"' {
					inStr = false // "" re-enters immediately
				}
			case inBar:
				if c == '|' {
					inBar = false
				}
			case c == '"':
				inStr = true
			case c == '|':
				inBar = true
			case c == '(':
				depth++
				started = true
			case c == ')':
				depth--
			}
		}
		if started && depth <= 0 && !inStr && !inBar {
			return sb.String(), true
		}
	}
}

// parseModel parses ((|a| "x") (|b| 5) (|c| (- 3)) (|d| true))
func parseModel(txt string, sorts map[string]Sort) (Model, error) {
	p := &sexpParser{s: txt}
	p.ws()
	if !p.eat('(') {
		return nil, fmt.Errorf("expected (")
	}
	m := Model{}
	for {
		p.ws()
		if p.eat(')') {
			break
		}
		if !p.eat('(') {
			return nil, fmt.Errorf("expected pair at %d", p.i)
		}
		p.ws()
		name, err := p.symbol()
		if err != nil {
			return nil, err
		}
		p.ws()
		switch sorts[name] {
		case SStr:
			v, err := p.str()
			if err != nil {
				return nil, fmt.Errorf("%s: %v", name, err)
			}
			m[name] = v
		case SInt:
			v, err := p.integer()
			if err != nil {
				return nil, fmt.Errorf("%s: %v", name, err)
			}
			m[name] = v
		default:
			w := p.word()
			m[name] = w == "true"
		}
		p.ws()
		if !p.eat(')') {
			return nil, fmt.Errorf("expected ) after %s at %d", name, p.i)
		}
	}
	return m, nil
}

type sexpParser struct {
	s string
	i int
}

func (p *sexpParser) ws() {
	for p.i < len(p.s) && (p.s[p.i] == ' ' || p.s[p.i] == '\n' || p.s[p.i] == '\t' || p.s[p.i] == '\r') {
		p.i++
	}
}
func (p *sexpParser) eat(c byte) bool {
	if p.i < len(p.s) && p.s[p.i] == c {
		p.i++
		return true
	}
	return false
}
func (p *sexpParser) word() string {
	st := p.i
	for p.i < len(p.s) && !strings.ContainsRune(" \n\t\r()", rune(p.s[p.i])) {
		p.i++
	}
	return p.s[st:p.i]
}
func (p *sexpParser) symbol() (string, error) {
	if p.eat('|') {
		st := p.i
		for p.i < len(p.s) && p.s[p.i] != '|' {
			p.i++
		}
		n := p.s[st:p.i]
		p.i++
		return n, nil
	}
	return p.word(), nil
}
func (p *sexpParser) integer() (int64, error) {
	if p.eat('(') {
		p.ws()
		if !p.eat('-') {
			return 0, fmt.Errorf("expected -")
		}
		p.ws()
		w := p.word()
		p.ws()
		p.eat(')')
		v, err := strconv.ParseUint(w, 10, 64)
		if err != nil {
			return 0, err
		}
		return -int64(v), nil
	}
	w := p.word()
	v, err := strconv.ParseInt(w, 10, 64)
	if err != nil {
		// out of int64 range: clamp, the caller treats it as a plain value
		if strings.HasPrefix(w, "-") {
			return -1 << 63, nil
		}
		return 1<<63 - 1, nil
	}
	return v, nil
}

// str parses an SMT-LIB string literal into Go bytes: code points < 256 become
// one byte, larger ones their UTF-8 encoding.
func (p *sexpParser) str() (string, error) {
	if !p.eat('"') {
		return "", fmt.Errorf("expected string at %d", p.i)
	}
	var out []byte
	for p.i < len(p.s) {
		c := p.s[p.i]
		if c == '"' {
			if p.i+1 < len(p.s) && p.s[p.i+1] == '"' {
				out = append(out, '"')
				p.i += 2
				continue
			}
			p.i++
			return string(out), nil
		}
		if c == '\\' && p.i+1 < len(p.s) && p.s[p.i+1] == 'u' {
			// \u{X..} or \uXXXX
			j := p.i + 2
			var hex string
			if j < len(p.s) && p.s[j] == '{' {
				k := strings.IndexByte(p.s[j:], '}')
				if k > 0 {
					hex = p.s[j+1 : j+k]
					j = j + k + 1
				}
			} else if j+4 <= len(p.s) {
				hex = p.s[j : j+4]
				j += 4
			}
			if v, err := strconv.ParseUint(hex, 16, 32); err == nil && hex != "" {
				if v < 256 {
					out = append(out, byte(v))
				} else {
					out = append(out, []byte(string(rune(v)))...)
				}
				p.i = j
				continue
			}
		}
		if c == '\\' && p.i+1 < len(p.s) && p.s[p.i+1] == 'x' && p.i+4 <= len(p.s) {
			// z3 legacy \xNN
			if v, err := strconv.ParseUint(p.s[p.i+2:p.i+4], 16, 8); err == nil {
				out = append(out, byte(v))
				p.i += 4
				continue
			}
		}
		out = append(out, c)
		p.i++
	}
	return "", fmt.Errorf("unterminated string")
}

// Portfolio: primary solver first, the others on unknown.
type Portfolio struct {
	Solvers []*Solver
	Hard    time.Duration
}

func NewPortfolio(names []string, timeoutMs int) *Portfolio {
	p := &Portfolio{Hard: time.Duration(timeoutMs)*time.Millisecond + 5*time.Second}
	for _, n := range names {
		p.Solvers = append(p.Solvers, NewSolver(n, timeoutMs))
	}
	return p
}

func (p *Portfolio) Close() {
	for _, s := range p.Solvers {
		s.Close()
	}
}

func (p *Portfolio) Check(base []*Term, extra []*Term, wantModel bool) (Result, Model, string) {
	// trivial cases
	var live []*Term
	for _, a := range extra {
		if a.IsFalse() {
			return Unsat, nil, ""
		}
		if !a.IsTrue() {
			live = append(live, a)
		}
	}
	for _, a := range base {
		if a.IsFalse() {
			return Unsat, nil, ""
		}
	}
	if len(live) == 0 && len(base) == 0 {
		return Sat, Model{}, ""
	}
	// two rounds: every solver with a short limit first (a query one back end
	// cannot do is often trivial for another), then every solver with the full limit
	reason := ""
	if len(p.Solvers) > 1 {
		for _, s := range p.Solvers {
			r, m, _ := s.CheckLimit(base, live, wantModel, p.Hard, 1500)
			if r != Unknown {
				return r, m, ""
			}
		}
	}
	for _, s := range p.Solvers {
		r, m, why := s.CheckLimit(base, live, wantModel, p.Hard, 0)
		if r != Unknown {
			return r, m, ""
		}
		reason += s.Name + ": " + why + "; "
	}
	return Unknown, nil, reason
}

// Confirm asks the solvers other than the one that answered first whether base ∧
// extra is satisfiable after all (thorough tier: every unsat verdict of an
// assertion is put to the second back end; a disagreement is reported as
// inconclusive, never as a verdict).
func (p *Portfolio) Confirm(base []*Term, extra []*Term) (Result, string) {
	var live []*Term
	for _, a := range extra {
		if a.IsFalse() {
			return Unsat, ""
		}
		if !a.IsTrue() {
			live = append(live, a)
		}
	}
	for _, a := range base {
		if a.IsFalse() {
			return Unsat, ""
		}
	}
	if len(p.Solvers) < 2 {
		return Unsat, ""
	}
	// the last solver of the portfolio is the one least likely to have answered
	s := p.Solvers[len(p.Solvers)-1]
	r, _, _ := s.CheckLimit(base, live, false, p.Hard, 10000)
	if r == Sat {
		return Sat, s.Name
	}
	return r, s.Name
}

// CheckAll asks every solver and reports disagreement (thorough tier).
func (p *Portfolio) CheckAll(asserts []*Term) (Result, string) {
	var first Result = Unknown
	have := false
	for _, s := range p.Solvers {
		r, _, _ := s.Check(nil, asserts, false, p.Hard)
		if r == Unknown {
			continue
		}
		if !have {
			first, have = r, true
		} else if r != first {
			return Unknown, "solver disagreement: " + s.Name
		}
	}
	return first, ""
}
