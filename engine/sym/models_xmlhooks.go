package sym

import (
	"go/types"
	"strings"
	"sync"

	"golang.org/x/tools/go/ssa"
)

// Custom (un)marshalling methods of the module's own types. encoding/xml calls
// UnmarshalXML / UnmarshalText / UnmarshalXMLAttr (MarshalXML / MarshalText on
// the way out) instead of its default treatment of a value, so the decode and
// encode contracts execute those methods from their real SSA:
//
//   - decode: the element's default-decoded content (the snapshot the document
//     was made of) is what d.DecodeElement(v, &start) delivers into v; whatever
//     the method does before and after is real code;
//   - encode: what the method hands to e.EncodeElement(v, start) replaces the
//     value in the snapshot the document is a function of.
//
// Methods that walk tokens themselves (d.Token, e.EncodeToken) have no
// contract and end the path as inconclusive. On a tree without such methods
// (the pinned one) none of this runs.

var decodeHookNames = []string{"UnmarshalXML", "UnmarshalText", "UnmarshalXMLAttr"}
var encodeHookNames = []string{"MarshalXML", "MarshalText", "MarshalXMLAttr"}

type hookCache struct {
	mu   sync.Mutex
	has  map[string]bool
	meth map[string]*ssa.Function
}

var hooks = &hookCache{has: map[string]bool{}, meth: map[string]*ssa.Function{}}

// moduleMethod finds method name in the method set of t or *t when it is
// declared by the module under analysis.
func (e *Engine) moduleMethod(t types.Type, name string) *ssa.Function {
	key := t.String() + "#" + name
	hooks.mu.Lock()
	defer hooks.mu.Unlock()
	if fn, ok := hooks.meth[key]; ok {
		return fn
	}
	var found *ssa.Function
	cands := []types.Type{t}
	if _, isPtr := t.Underlying().(*types.Pointer); !isPtr {
		if _, isIface := t.Underlying().(*types.Interface); !isIface {
			cands = append(cands, types.NewPointer(t))
		}
	}
	for _, rt := range cands {
		sel := e.Prog.MethodSets.MethodSet(rt).Lookup(nil, name)
		if sel == nil {
			continue
		}
		obj := sel.Obj()
		if obj == nil || obj.Pkg() == nil || !strings.HasPrefix(obj.Pkg().Path(), e.ModulePath) {
			continue
		}
		if fn := e.Prog.MethodValue(sel); fn != nil && fn.Blocks != nil {
			found = fn
			break
		}
	}
	hooks.meth[key] = found
	return found
}

// typeHasHooks: does t, or any type reachable through its fields, pointers and
// slices, declare one of the named methods?
func (e *Engine) typeHasHooks(t types.Type, names []string) bool {
	key := t.String() + "|" + names[0]
	hooks.mu.Lock()
	if v, ok := hooks.has[key]; ok {
		hooks.mu.Unlock()
		return v
	}
	hooks.mu.Unlock()
	seen := map[string]bool{}
	var walk func(t types.Type) bool
	walk = func(t types.Type) bool {
		k := t.String()
		if seen[k] {
			return false
		}
		seen[k] = true
		if n, ok := t.(*types.Named); ok && n.Obj().Pkg() != nil && strings.HasPrefix(n.Obj().Pkg().Path(), e.ModulePath) {
			for _, name := range names {
				if e.moduleMethod(t, name) != nil {
					return true
				}
			}
		}
		switch u := t.Underlying().(type) {
		case *types.Struct:
			for i := 0; i < u.NumFields(); i++ {
				if walk(u.Field(i).Type()) {
					return true
				}
			}
		case *types.Pointer:
			return walk(u.Elem())
		case *types.Slice:
			return walk(u.Elem())
		case *types.Array:
			return walk(u.Elem())
		}
		return false
	}
	r := walk(t)
	hooks.mu.Lock()
	hooks.has[key] = r
	hooks.mu.Unlock()
	return r
}

type elemDec struct {
	cur Value
	typ types.Type
}

type elemEnc struct {
	captured Value
	typ      types.Type
	calls    int
}

// xmlDecodeHooks runs the custom unmarshalling methods on the freshly decoded
// value at p (type t), top-down. It returns a non-nil error value when one of
// them fails.
func (x *Exec) xmlDecodeHooks(fr *frame, p *Pointer, t types.Type, skipSelf bool) Value {
	if !x.E.typeHasHooks(t, decodeHookNames) {
		return nil
	}
	if _, isPtr := t.Underlying().(*types.Pointer); isPtr {
		skipSelf = true // the methods are looked up on the pointee
	}
	if !skipSelf {
		if fn := x.E.moduleMethod(t, "UnmarshalXML"); fn != nil {
			cur := x.deepCopy(x.load(p), 0)
			x.store(p, zeroValue(t))
			dec := &Native{Kind: "xmlelemdec", Data: &elemDec{cur: cur, typ: t}}
			start := zeroValue(x.E.namedType("encoding/xml", "StartElement"))
			x.contracts["encoding/xml: custom UnmarshalXML of "+t.String()+" executed from its SSA (DecodeElement delivers the default-decoded element)"] = true
			r := x.CallFunction(fn, []Value{p, dec, start}, nil, fr, nil)
			if r != nil && !isNilErr(r) {
				return r
			}
			return nil
		}
		if fn := x.E.moduleMethod(t, "UnmarshalText"); fn != nil {
			if cur, ok := x.load(p).(*Term); ok && cur.Sort == SStr {
				x.store(p, zeroValue(t))
				x.contracts["encoding/xml: custom UnmarshalText of "+t.String()+" executed from its SSA"] = true
				r := x.CallFunction(fn, []Value{p, &BytesV{T: cur}}, nil, fr, nil)
				if r != nil && !isNilErr(r) {
					return r
				}
				return nil
			}
		}
		if fn := x.E.moduleMethod(t, "UnmarshalXMLAttr"); fn != nil {
			if cur, ok := x.load(p).(*Term); ok && cur.Sort == SStr {
				at := x.E.namedType("encoding/xml", "Attr")
				attr := zeroValue(at).(*StructV)
				av := &StructV{F: append([]Value{}, attr.F...)}
				av.F[x.fieldIdx(at, "Value")] = cur
				x.store(p, zeroValue(t))
				x.contracts["encoding/xml: custom UnmarshalXMLAttr of "+t.String()+" executed from its SSA"] = true
				r := x.CallFunction(fn, []Value{p, av}, nil, fr, nil)
				if r != nil && !isNilErr(r) {
					return r
				}
				return nil
			}
		}
	}
	switch u := t.Underlying().(type) {
	case *types.Struct:
		for i := 0; i < u.NumFields(); i++ {
			if strings.Contains(u.Tag(i), `xml:"-"`) {
				continue
			}
			if r := x.xmlDecodeHooks(fr, p.sub(i), u.Field(i).Type(), false); r != nil {
				return r
			}
		}
	case *types.Pointer:
		if q, ok := x.force(x.load(p)).(*Pointer); ok && !q.IsNil() {
			return x.xmlDecodeHooks(fr, q, u.Elem(), false)
		}
	case *types.Slice:
		if isByteSlice(t) {
			return nil
		}
		if s, ok := x.force(x.load(p)).(*SliceV); ok && s.Arr != nil {
			for i := 0; i < s.Len; i++ {
				if r := x.xmlDecodeHooks(fr, &Pointer{Cell: s.Arr, Path: []int{s.Off + i}}, u.Elem(), false); r != nil {
					return r
				}
			}
		}
	}
	return nil
}

// xmlEncodeHooks returns v (a deep copy when anything changes) with the values
// custom marshalling methods put on the wire in place of the originals.
func (x *Exec) xmlEncodeHooks(v Value, t types.Type) Value {
	if !x.E.typeHasHooks(t, encodeHookNames) {
		return v
	}
	snap := x.deepCopy(v, 0)
	// work on an addressable copy
	var root *Pointer
	rt := t
	if p, ok := x.force(snap).(*Pointer); ok {
		if p.IsNil() {
			return v
		}
		root = p
		if pt, ok := t.Underlying().(*types.Pointer); ok {
			rt = pt.Elem()
		}
	} else {
		root = &Pointer{Cell: x.newCell(snap, t, "marshal copy")}
	}
	x.encodeHooksAt(root, rt, false)
	if _, ok := x.force(snap).(*Pointer); ok {
		return root
	}
	return root.Cell.V
}

func (x *Exec) encodeHooksAt(p *Pointer, t types.Type, skipSelf bool) {
	if !x.E.typeHasHooks(t, encodeHookNames) {
		return
	}
	if _, isPtr := t.Underlying().(*types.Pointer); isPtr {
		skipSelf = true // the methods are looked up on the pointee
	}
	if !skipSelf {
		if fn := x.E.moduleMethod(t, "MarshalXML"); fn != nil {
			ee := &elemEnc{}
			enc := &Native{Kind: "xmlelemenc", Data: ee}
			start := zeroValue(x.E.namedType("encoding/xml", "StartElement"))
			recv := Value(p)
			if _, ptrRecv := fn.Signature.Recv().Type().(*types.Pointer); !ptrRecv {
				recv = x.load(p)
			}
			x.contracts["encoding/xml: custom MarshalXML of "+t.String()+" executed from its SSA (what it hands to EncodeElement is what is serialised)"] = true
			r := x.CallFunction(fn, []Value{recv, enc, start}, nil, nil, nil)
			if r != nil && !isNilErr(r) {
				panic(abortf("custom MarshalXML of %s returns an error (not encoded)", t))
			}
			if ee.calls != 1 {
				panic(abortf("custom MarshalXML of %s does not encode exactly one element (not encoded)", t))
			}
			cv := x.force(ee.captured)
			ct := ee.typ
			if q, ok := cv.(*Pointer); ok {
				if q.IsNil() {
					panic(abortf("custom MarshalXML of %s encodes a nil pointer (not encoded)", t))
				}
				cv = x.load(q)
				if pt, ok := ct.Underlying().(*types.Pointer); ok {
					ct = pt.Elem()
				}
			}
			if !types.Identical(ct.Underlying(), t.Underlying()) {
				panic(abortf("custom MarshalXML of %s encodes a value of another shape (%s; not encoded)", t, ct))
			}
			x.store(p, x.deepCopy(cv, 0))
			x.encodeHooksAt(p, t, true)
			return
		}
		if fn := x.E.moduleMethod(t, "MarshalText"); fn != nil {
			if cur, ok := x.load(p).(*Term); ok && cur.Sort == SStr {
				recv := Value(p)
				if _, ptrRecv := fn.Signature.Recv().Type().(*types.Pointer); !ptrRecv {
					recv = cur
				}
				x.contracts["encoding/xml: custom MarshalText of "+t.String()+" executed from its SSA"] = true
				r := x.CallFunction(fn, []Value{recv}, nil, nil, nil)
				if tv, ok := r.(TupleV); ok && len(tv) == 2 && isNilErr(tv[1]) {
					x.store(p, bytesTerm(x, tv[0]))
					return
				}
				panic(abortf("custom MarshalText of %s returns an error (not encoded)", t))
			}
		}
	}
	switch u := t.Underlying().(type) {
	case *types.Struct:
		for i := 0; i < u.NumFields(); i++ {
			if strings.Contains(u.Tag(i), `xml:"-"`) {
				continue
			}
			x.encodeHooksAt(p.sub(i), u.Field(i).Type(), false)
		}
	case *types.Pointer:
		if q, ok := x.force(x.load(p)).(*Pointer); ok && !q.IsNil() {
			x.encodeHooksAt(q, u.Elem(), false)
		}
	case *types.Slice:
		if isByteSlice(t) {
			return
		}
		if s, ok := x.force(x.load(p)).(*SliceV); ok && s.Arr != nil {
			for i := 0; i < s.Len; i++ {
				x.encodeHooksAt(&Pointer{Cell: s.Arr, Path: []int{s.Off + i}}, u.Elem(), false)
			}
		}
	}
}

func registerXMLHookModels(e *Engine) {
	m := e.Models
	// d.DecodeElement(v, &start) inside a custom UnmarshalXML
	m["(*encoding/xml.Decoder).DecodeElement"] = func(x *Exec, fr *frame, a []Value) Value {
		n, ok := x.force(a[0]).(*Native)
		if !ok || n.Kind != "xmlelemdec" {
			panic(abortf("(*xml.Decoder).DecodeElement outside a custom UnmarshalXML (no contract)"))
		}
		d := n.Data.(*elemDec)
		iv, ok := x.force(a[1]).(*IfaceV)
		if !ok || iv.T == nil {
			return x.errorC("xml: non-pointer passed to Unmarshal")
		}
		tp, ok := x.force(iv.V).(*Pointer)
		pt, isPtr := iv.T.Underlying().(*types.Pointer)
		if !ok || !isPtr || tp.IsNil() {
			return x.errorC("xml: non-pointer passed to Unmarshal")
		}
		if !types.Identical(pt.Elem().Underlying(), d.typ.Underlying()) {
			panic(abortf("custom UnmarshalXML decodes the element into another shape (%s; not encoded)", pt.Elem()))
		}
		x.store(tp, x.deepCopy(d.cur, 0))
		if r := x.xmlDecodeHooks(fr, tp, pt.Elem(), types.Identical(pt.Elem(), d.typ)); r != nil {
			return r
		}
		return NilIface
	}
	// e.EncodeElement(v, start) inside a custom MarshalXML
	m["(*encoding/xml.Encoder).EncodeElement"] = func(x *Exec, fr *frame, a []Value) Value {
		n, ok := x.force(a[0]).(*Native)
		if !ok || n.Kind != "xmlelemenc" {
			panic(abortf("(*xml.Encoder).EncodeElement outside a custom MarshalXML (no contract)"))
		}
		ee := n.Data.(*elemEnc)
		iv, ok := x.force(a[1]).(*IfaceV)
		if !ok || iv.T == nil {
			return x.errorC("xml: unsupported type: nil")
		}
		ee.calls++
		ee.captured, ee.typ = x.deepCopy(iv.V, 0), iv.T
		return NilIface
	}
}
