package sym

import (
	"crypto/sha256"
	"encoding/base64"
	"fmt"
	"go/types"
	"strings"
	"sync"
)

// ---------------------------------------------------------------------------
// Streams and codecs (DESIGN §3.6): bytes.Buffer, bufio, base64, flate,
// encoding/xml, encoding/json, io, pem.

const xmlHeader = "<?xml version=\"1.0\" encoding=\"UTF-8\"?>\n"

type xmlToken struct {
	In   Value // what was handed to the encoder (before custom marshalling methods)
	Obj  Value // snapshot (deep copy)
	Typ  types.Type
	Key  string
	Kind string // xml | json
}

type streamObj struct {
	content *Term
	kind    string
	w       Value // underlying writer (interface value)
	acc     *Term
	closed  bool
	enc     string // base64 flavour
	inner   *streamObj
	limit   *Term
	failed  *Term
}

func bytesTerm(x *Exec, v Value) *Term {
	switch d := x.force(v).(type) {
	case *BytesV:
		return d.T
	case *Term:
		return d
	}
	panic(abortf("expected bytes, got %T", v))
}

// shape resolves top-level ite terms by forking on their conditions, so that
// contracts which look at the structure of a term (is it base64 of something,
// a serialisation token, ...) see one definite shape.
func (x *Exec) shape(t *Term) *Term {
	for t.Op == "ite" && t.Sort == SStr {
		if x.Branch(t.Args[0]) {
			t = t.Args[1]
		} else {
			t = t.Args[2]
		}
	}
	return t
}

func (x *Exec) attr(t *Term, name string) bool {
	if t.Op == "sym" {
		return x.strAttrs[t.S][name]
	}
	return false
}

func (x *Exec) setAttr(t *Term, name string) {
	if t.Op != "sym" {
		return
	}
	if x.strAttrs[t.S] == nil {
		x.strAttrs[t.S] = map[string]bool{}
	}
	x.strAttrs[t.S][name] = true
}

// token returns the canonical serialisation symbol of a value snapshot:
// equal snapshots of the same type share one symbol (xmlenc is a function),
// different ones are asserted different (it is injective).
func (x *Exec) token(kind string, v Value, t types.Type) *Term {
	var in Value
	if kind == "xml" {
		if x.E.typeHasHooks(t, encodeHookNames) || x.E.typeHasHooks(t, decodeHookNames) {
			in = x.deepCopy(v, 0)
		}
		v = x.xmlEncodeHooks(v, t) // custom MarshalXML / MarshalText methods of module types
	}
	snap := x.deepCopy(v, 0)
	key := kind + "|" + t.String() + "|" + x.snapKey(snap, 0)
	h := sha256.Sum256([]byte(key))
	name := fmt.Sprintf("%s!%x", kind, h[:5])
	if _, ok := x.xmlTokens[name]; !ok {
		tok := x.sym(name, SStr)
		for other := range x.xmlTokens {
			x.assume(Not(Eq(tok, x.sym(other, SStr))))
		}
		x.xmlTokens[name] = &xmlToken{In: in, Obj: snap, Typ: t, Key: key, Kind: kind}
		if kind == "xml" {
			x.assume(PrefixOf(StrC("<"), tok))
		} else {
			x.assume(PrefixOf(StrC("{"), tok))
		}
		x.tokenOrder = append(x.tokenOrder, name)
	}
	return x.sym(name, SStr)
}

// tokenOf finds the serialisation token a byte string consists of
// (optionally preceded by the XML header).
func (x *Exec) tokenOf(t *Term) (*xmlToken, bool) {
	ps := flatten(t)
	if len(ps) == 2 && ps[0].IsConst() && ps[0].S == xmlHeader {
		ps = ps[1:]
	}
	if len(ps) == 1 && ps[0].Op == "sym" {
		if tok, ok := x.xmlTokens[ps[0].S]; ok {
			return tok, true
		}
	}
	return nil, false
}

func (x *Exec) writeTo(fr *frame, w Value, data *Term) Value {
	r := x.invoke(fr, x.force(w), "Write", nil, []Value{&BytesV{T: data}}, nil)
	if tv, ok := r.(TupleV); ok {
		return tv[1]
	}
	return NilIface
}

func isNilErr(v Value) bool {
	iv, ok := v.(*IfaceV)
	return ok && iv.T == nil
}

func registerCodecModels(e *Engine) {
	m := e.Models
	bufT := func() types.Type { return e.namedType("bytes", "Buffer") }

	// bytes.Buffer: content lives in the real struct's buf field
	bufPtr := func(x *Exec, v Value) *Pointer {
		p, ok := x.force(v).(*Pointer)
		if !ok || p.IsNil() {
			panic(&guestPanic{msg: "nil pointer dereference (*bytes.Buffer)"})
		}
		return p
	}
	bufGet := func(x *Exec, p *Pointer) *Term {
		return bytesTerm(x, x.getField(p, bufT(), "buf"))
	}
	bufSet := func(x *Exec, p *Pointer, t *Term) {
		if p.Cell.Epoch < x.epoch && x.epoch > 0 {
			x.sharedWrites = append(x.sharedWrites, "write to provider-lifetime bytes.Buffer "+p.Cell.Name)
		}
		x.setField(p, bufT(), "buf", &BytesV{T: t})
	}
	m["bytes.NewBuffer"] = func(x *Exec, fr *frame, a []Value) Value {
		c := x.newCell(zeroValue(bufT()), bufT(), "bytes.NewBuffer")
		p := &Pointer{Cell: c}
		bufSet(x, p, bytesTerm(x, a[0]))
		return p
	}
	m["bytes.NewBufferString"] = m["bytes.NewBuffer"]
	m["bytes.NewReader"] = func(x *Exec, fr *frame, a []Value) Value {
		return &Native{Kind: "reader", Data: &streamObj{content: bytesTerm(x, a[0])}}
	}
	m["(*bytes.Buffer).Write"] = func(x *Exec, fr *frame, a []Value) Value {
		p := bufPtr(x, a[0])
		d := bytesTerm(x, a[1])
		bufSet(x, p, Concat(bufGet(x, p), d))
		return TupleV{Len(d), NilIface}
	}
	m["(*bytes.Buffer).WriteString"] = m["(*bytes.Buffer).Write"]
	m["(*bytes.Buffer).Bytes"] = func(x *Exec, fr *frame, a []Value) Value {
		p := bufPtr(x, a[0])
		b := &BytesV{T: bufGet(x, p)}
		// the slice aliases the buffer's memory (see the sync.Pool contract)
		x.bufAliases[p.Cell] = append(x.bufAliases[p.Cell], b)
		return b
	}
	m["(*bytes.Buffer).Reset"] = func(x *Exec, fr *frame, a []Value) Value {
		bufSet(x, bufPtr(x, a[0]), StrC(""))
		return nil
	}
	m["(*bytes.Buffer).Truncate"] = func(x *Exec, fr *frame, a []Value) Value {
		n := x.term(a[1])
		if !(n.IsConst() && n.I == 0) {
			panic(abortf("(*bytes.Buffer).Truncate(n) with n != 0 is not encoded"))
		}
		bufSet(x, bufPtr(x, a[0]), StrC(""))
		return nil
	}
	m["(*bytes.Buffer).Grow"] = func(x *Exec, fr *frame, a []Value) Value { bufPtr(x, a[0]); return nil }
	m["(*bytes.Buffer).WriteByte"] = func(x *Exec, fr *frame, a []Value) Value {
		panic(abortf("(*bytes.Buffer).WriteByte: byte-wise writes are not encoded"))
	}
	// WriteTo drains the buffer into w; what a failing writer did not take stays in the buffer
	m["(*bytes.Buffer).WriteTo"] = func(x *Exec, fr *frame, a []Value) Value {
		p := bufPtr(x, a[0])
		d := bufGet(x, p)
		if d.IsConst() && d.S == "" {
			return TupleV{IntC(0), NilIface}
		}
		r := x.invoke(fr, x.force(a[1]), "Write", nil, []Value{&BytesV{T: d}}, nil)
		var n Value = Len(d)
		var err Value = NilIface
		if tv, ok := r.(TupleV); ok {
			n, err = tv[0], tv[1]
		}
		if isNilErr(err) {
			bufSet(x, p, StrC(""))
		} else {
			// a short write: an unknown suffix of the content remains
			rest := x.fresh("buffer.unsent", SStr)
			x.assume(SuffixOf(rest, d))
			bufSet(x, p, rest)
		}
		return TupleV{n, err}
	}
	m["(*bytes.Buffer).String"] = func(x *Exec, fr *frame, a []Value) Value {
		p, ok := x.force(a[0]).(*Pointer)
		if ok && p.IsNil() {
			return StrC("<nil>")
		}
		return bufGet(x, bufPtr(x, a[0]))
	}
	m["(*bytes.Buffer).Len"] = func(x *Exec, fr *frame, a []Value) Value { return Len(bufGet(x, bufPtr(x, a[0]))) }
	m["(*bytes.Buffer).Read"] = func(x *Exec, fr *frame, a []Value) Value {
		panic(abortf("(*bytes.Buffer).Read: chunked reads are not encoded"))
	}

	// bufio.Writer
	m["bufio.NewWriter"] = func(x *Exec, fr *frame, a []Value) Value {
		return &Native{Kind: "bufwriter", Data: &streamObj{w: a[0], acc: StrC("")}}
	}
	bufwWrite := func(x *Exec, fr *frame, a []Value) Value {
		s := a[0].(*Native).Data.(*streamObj)
		d := bytesTerm(x, a[1])
		s.acc = Concat(s.acc, d)
		return TupleV{Len(d), NilIface}
	}
	bufwFlush := func(x *Exec, fr *frame, a []Value) Value {
		s := a[0].(*Native).Data.(*streamObj)
		d := s.acc
		s.acc = StrC("")
		if d.IsConst() && d.S == "" {
			return NilIface
		}
		return x.writeTo(fr, s.w, d)
	}
	m["(*bufio.Writer).Write"] = bufwWrite
	m["(*bufio.Writer).WriteString"] = bufwWrite
	m["(*bufio.Writer).Flush"] = bufwFlush
	e.NativeMeth["bufwriter.Write"] = bufwWrite
	e.NativeMeth["bufwriter.Flush"] = bufwFlush

	// base64
	b64name := func(x *Exec, v Value) string {
		if n, ok := x.force(v).(*Native); ok && n.Kind == "b64encoding" {
			return n.Data.(string)
		}
		panic(abortf("base64 encoding object is %T", v))
	}
	encodeB64 := func(enc string, d *Term) *Term {
		if d.IsConst() {
			switch enc {
			case "b64":
				return StrC(base64.StdEncoding.EncodeToString([]byte(d.S)))
			case "b64url":
				return StrC(base64.URLEncoding.EncodeToString([]byte(d.S)))
			case "b64raw":
				return StrC(base64.RawStdEncoding.EncodeToString([]byte(d.S)))
			case "b64rawurl":
				return StrC(base64.RawURLEncoding.EncodeToString([]byte(d.S)))
			}
		}
		return UF(enc, d)
	}
	m["(*encoding/base64.Encoding).EncodeToString"] = func(x *Exec, fr *frame, a []Value) Value {
		return encodeB64(b64name(x, a[0]), bytesTerm(x, a[1]))
	}
	m["(*encoding/base64.Encoding).DecodeString"] = func(x *Exec, fr *frame, a []Value) Value {
		enc := b64name(x, a[0])
		t := x.shape(x.term(a[1]))
		if t.IsConst() {
			var b []byte
			var err error
			switch enc {
			case "b64":
				b, err = base64.StdEncoding.DecodeString(t.S)
			case "b64url":
				b, err = base64.URLEncoding.DecodeString(t.S)
			case "b64raw":
				b, err = base64.RawStdEncoding.DecodeString(t.S)
			default:
				b, err = base64.RawURLEncoding.DecodeString(t.S)
			}
			if err != nil {
				return TupleV{&BytesV{T: StrC(""), Nil: true}, x.errorC("illegal base64 data")}
			}
			return TupleV{&BytesV{T: StrC(string(b))}, NilIface}
		}
		if t.Op == "uf" && t.S == enc {
			return TupleV{&BytesV{T: t.Args[0]}, NilIface}
		}
		if _, ok := x.tokenOf(t); ok {
			// serialised XML/JSON is never valid base64 ('<' / '{' are outside the alphabet)
			return TupleV{&BytesV{T: StrC(""), Nil: true}, x.errorC("illegal base64 data")}
		}
		// unknown text: decoding fails, or yields some bytes
		okT := UFSort("b64ok."+enc, SBool, t)
		if name := x.certSymbol(t); name != "" {
			// a certificate text the harness marks valid is the base64 of a DER certificate
			x.assume(Implies(x.sym(name+".valid", SBool), okT))
		}
		if x.attr(t, "undecodable") {
			if !x.Branch(okT) {
				return TupleV{&BytesV{T: StrC(""), Nil: true}, x.errorC("illegal base64 data")}
			}
			d := x.sym("un"+enc+"("+t.S+")", SStr)
			x.setAttr(d, "undecodable")
			return TupleV{&BytesV{T: d}, NilIface}
		}
		if !x.Branch(okT) {
			return TupleV{&BytesV{T: StrC(""), Nil: true}, x.errorC("illegal base64 data")}
		}
		return TupleV{&BytesV{T: UF("un"+enc, t)}, NilIface}
	}
	m["encoding/base64.NewEncoder"] = func(x *Exec, fr *frame, a []Value) Value {
		return nativeIface("b64enc", &streamObj{w: a[1], acc: StrC(""), enc: b64name(x, a[0])})
	}
	e.NativeMeth["b64enc.Write"] = func(x *Exec, fr *frame, a []Value) Value {
		s := a[0].(*Native).Data.(*streamObj)
		d := bytesTerm(x, a[1])
		if s.closed {
			return TupleV{IntC(0), x.errorC("write to closed base64 encoder")}
		}
		s.acc = Concat(s.acc, d)
		return TupleV{Len(d), NilIface}
	}
	e.NativeMeth["b64enc.Close"] = func(x *Exec, fr *frame, a []Value) Value {
		s := a[0].(*Native).Data.(*streamObj)
		if s.closed {
			return NilIface
		}
		s.closed = true
		return x.writeTo(fr, s.w, encodeB64(s.enc, s.acc))
	}

	// flate
	m["compress/flate.NewWriter"] = func(x *Exec, fr *frame, a []Value) Value {
		lv := x.term(a[1])
		okLevel := And(Le(IntC(-2), lv), Le(lv, IntC(9)))
		if !x.Branch(okLevel) {
			return TupleV{NilPtr, x.errorC("flate: invalid compression level")}
		}
		return TupleV{&Native{Kind: "flatew", Data: &streamObj{w: a[0], acc: StrC("")}}, NilIface}
	}
	flateWrite := func(x *Exec, fr *frame, a []Value) Value {
		n, ok := x.force(a[0]).(*Native)
		if !ok {
			panic(&guestPanic{msg: "nil pointer dereference (*flate.Writer)"})
		}
		s := n.Data.(*streamObj)
		d := bytesTerm(x, a[1])
		s.acc = Concat(s.acc, d)
		return TupleV{Len(d), NilIface}
	}
	flateClose := func(x *Exec, fr *frame, a []Value) Value {
		n, ok := x.force(a[0]).(*Native)
		if !ok {
			panic(&guestPanic{msg: "nil pointer dereference (*flate.Writer)"})
		}
		s := n.Data.(*streamObj)
		if s.closed {
			return NilIface
		}
		s.closed = true
		return x.writeTo(fr, s.w, UF("deflate", s.acc))
	}
	m["(*compress/flate.Writer).Write"] = flateWrite
	m["(*compress/flate.Writer).Close"] = flateClose
	m["(*compress/flate.Writer).Flush"] = func(x *Exec, fr *frame, a []Value) Value { return NilIface }
	m["compress/flate.NewReader"] = func(x *Exec, fr *frame, a []Value) Value {
		src := x.readerContent(fr, a[0])
		return nativeIface("flater", &streamObj{content: src, kind: "flater"})
	}
	// zlib / gzip framing around a DEFLATE stream: the header is checked when the reader is made
	for _, z := range []struct{ pkg, uf string }{{"compress/zlib", "zlibwrap"}, {"compress/gzip", "gzipwrap"}} {
		z := z
		m[z.pkg+".NewReader"] = func(x *Exec, fr *frame, a []Value) Value {
			src := x.shape(x.readerContent(fr, a[0]))
			switch {
			case src.Op == "uf" && src.S == z.uf:
				return TupleV{nativeIface("flater", &streamObj{content: UF("deflate", src.Args[0]), kind: "flater"}), NilIface}
			case src.IsConst() || src.Op == "uf" || x.attr(src, "undecodable"):
				return TupleV{NilIface, x.errorC(z.pkg + ": invalid header")}
			}
			if _, ok := x.tokenOf(src); ok {
				return TupleV{NilIface, x.errorC(z.pkg + ": invalid header")}
			}
			if !x.Branch(UFSort(z.uf+".ok", SBool, src)) {
				return TupleV{NilIface, x.errorC(z.pkg + ": invalid header")}
			}
			return TupleV{nativeIface("flater", &streamObj{content: UF(z.uf+".body", src), kind: "flater"}), NilIface}
		}
	}
	e.NativeMeth["flater.Close"] = func(x *Exec, fr *frame, a []Value) Value { return NilIface }
	e.NativeMeth["reader.Close"] = func(x *Exec, fr *frame, a []Value) Value { return NilIface }
	e.NativeMeth["bodyreader.Close"] = func(x *Exec, fr *frame, a []Value) Value { return NilIface }
	e.NativeMeth["limitr.Close"] = func(x *Exec, fr *frame, a []Value) Value { return NilIface }

	// io
	readAll := func(x *Exec, fr *frame, a []Value) Value {
		data, err := x.readAllFrom(fr, a[0])
		if err != nil {
			return TupleV{&BytesV{T: StrC("")}, err}
		}
		return TupleV{&BytesV{T: data}, NilIface}
	}
	m["io.ReadAll"] = readAll
	m["io/ioutil.ReadAll"] = readAll
	m["io.LimitReader"] = func(x *Exec, fr *frame, a []Value) Value {
		return nativeIface("limitr", &streamObj{kind: "limitr", w: a[0], limit: x.term(a[1])})
	}
	m["net/http.MaxBytesReader"] = func(x *Exec, fr *frame, a []Value) Value {
		return nativeIface("limitr", &streamObj{kind: "maxbytes", w: a[1], limit: x.term(a[2])})
	}
	// hasMethod: does the dynamic type of an interface value (a module or library
	// type, not an engine native) have the method?
	hasMethod := func(x *Exec, v Value, name string) bool {
		iv, ok := x.force(v).(*IfaceV)
		if !ok || iv.T == nil || iv.T == nativeType {
			return false
		}
		if _, isNative := x.force(iv.V).(*Native); isNative {
			return false
		}
		return types.NewMethodSet(iv.T).Lookup(nil, name) != nil
	}
	m["(*bytes.Buffer).ReadFrom"] = func(x *Exec, fr *frame, a []Value) Value {
		p := bufPtr(x, a[0])
		data, err := x.readAllFrom(fr, a[1])
		if err != nil {
			return TupleV{IntC(0), err}
		}
		bufSet(x, p, Concat(bufGet(x, p), data))
		return TupleV{x.lenOf(data), NilIface}
	}
	m["io.Copy"] = func(x *Exec, fr *frame, a []Value) Value {
		// io.Copy prefers src.WriteTo(dst), then dst.ReadFrom(src), over a Read/Write loop
		if hasMethod(x, a[1], "WriteTo") {
			return x.invoke(fr, x.force(a[1]), "WriteTo", nil, []Value{a[0]}, nil)
		}
		if hasMethod(x, a[0], "ReadFrom") {
			return x.invoke(fr, x.force(a[0]), "ReadFrom", nil, []Value{a[1]}, nil)
		}
		data, err := x.readAllFrom(fr, a[1])
		if err != nil {
			return TupleV{IntC(0), err}
		}
		werr := x.writeTo(fr, a[0], data)
		return TupleV{Len(data), werr}
	}
	m["io.CopyN"] = func(x *Exec, fr *frame, a []Value) Value {
		lim := nativeIface("limitr", &streamObj{kind: "limitr", w: a[1], limit: x.term(a[2])})
		data, err := x.readAllFrom(fr, lim)
		if err != nil {
			return TupleV{IntC(0), err}
		}
		werr := x.writeTo(fr, a[0], data)
		if isNilErr(werr) && x.Branch(Lt(Len(data), x.term(a[2]))) {
			return TupleV{Len(data), x.errorC("EOF")}
		}
		return TupleV{Len(data), werr}
	}
	m["io.WriteString"] = func(x *Exec, fr *frame, a []Value) Value {
		d := x.term(a[1])
		return TupleV{Len(d), x.writeTo(fr, a[0], d)}
	}
	m["fmt.Fprintf"] = func(x *Exec, fr *frame, a []Value) Value {
		msg, _ := x.format(x.term(a[1]), x.sliceElems(a[2]))
		return TupleV{Len(msg), x.writeTo(fr, a[0], msg)}
	}
	m["fmt.Fprint"] = func(x *Exec, fr *frame, a []Value) Value {
		var parts []*Term
		for _, v := range x.sliceElems(a[1]) {
			parts = append(parts, x.fmtValue(v, 'v'))
		}
		msg := Concat(parts...)
		return TupleV{Len(msg), x.writeTo(fr, a[0], msg)}
	}
	m["fmt.Fprintln"] = func(x *Exec, fr *frame, a []Value) Value {
		var parts []*Term
		for i, v := range x.sliceElems(a[1]) {
			if i > 0 {
				parts = append(parts, StrC(" "))
			}
			parts = append(parts, x.fmtValue(v, 'v'))
		}
		msg := Concat(append(parts, StrC("\n"))...)
		return TupleV{Len(msg), x.writeTo(fr, a[0], msg)}
	}

	// encoding/xml
	m["encoding/xml.NewEncoder"] = func(x *Exec, fr *frame, a []Value) Value {
		return &Native{Kind: "xmlenc", Data: &streamObj{w: a[0]}}
	}
	m["(*encoding/xml.Encoder).Encode"] = func(x *Exec, fr *frame, a []Value) Value {
		s := a[0].(*Native).Data.(*streamObj)
		iv, ok := x.force(a[1]).(*IfaceV)
		if !ok || iv.T == nil {
			return x.errorC("xml: unsupported type: nil")
		}
		tok := x.token("xml", iv.V, iv.T)
		return x.writeTo(fr, s.w, tok)
	}
	m["(*encoding/xml.Encoder).Flush"] = func(x *Exec, fr *frame, a []Value) Value { return NilIface }
	m["(*encoding/xml.Encoder).Close"] = func(x *Exec, fr *frame, a []Value) Value { return NilIface }
	m["(*encoding/xml.Encoder).Indent"] = func(x *Exec, fr *frame, a []Value) Value { return nil }
	m["encoding/xml.Marshal"] = func(x *Exec, fr *frame, a []Value) Value {
		iv, ok := x.force(a[0]).(*IfaceV)
		if !ok || iv.T == nil {
			return TupleV{&BytesV{T: StrC(""), Nil: true}, x.errorC("xml: unsupported type: nil")}
		}
		return TupleV{&BytesV{T: x.token("xml", iv.V, iv.T)}, NilIface}
	}
	m["encoding/xml.MarshalIndent"] = m["encoding/xml.Marshal"]
	m["encoding/xml.Unmarshal"] = func(x *Exec, fr *frame, a []Value) Value {
		return x.xmlDecode(bytesTerm(x, a[0]), a[1])
	}
	m["encoding/xml.NewDecoder"] = func(x *Exec, fr *frame, a []Value) Value {
		return &Native{Kind: "xmldec", Data: &streamObj{w: a[0]}}
	}
	// d.Token(): contract for the "peek at the root element" idiom. Reading a token
	// materialises it, and a token may be as large as the stream (a comment or blank
	// run in front of the root, an attribute value of the root), so the whole content
	// of the source counts as materialised (bounded or not by what the source is).
	// The call returns an error or the first start element with arbitrary attributes;
	// tokens in front of it are skipped (stated approximation).
	m["(*encoding/xml.Decoder).Token"] = func(x *Exec, fr *frame, a []Value) Value {
		s, ok := a[0].(*Native).Data.(*streamObj)
		if !ok {
			panic(abortf("(*xml.Decoder).Token inside a custom UnmarshalXML (no contract)"))
		}
		if !s.closed {
			s.closed = true // the source is read once
			if _, err := x.readAllFrom(fr, s.w); err != nil {
				return TupleV{NilIface, err}
			}
		}
		x.unreplayable = append(x.unreplayable, "token-level read of a document")
		x.tokenSeq++
		if !x.Branch(x.sym(fmt.Sprintf("xmltoken!%d.ok", x.tokenSeq), SBool)) {
			return TupleV{NilIface, x.errorC("EOF / XML syntax error")}
		}
		st := x.E.namedType("encoding/xml", "StartElement")
		return TupleV{&IfaceV{T: st, V: x.lazyValue(st, fmt.Sprintf("xmltoken!%d", x.tokenSeq))}, NilIface}
	}
	m["(*encoding/xml.Decoder).RawToken"] = m["(*encoding/xml.Decoder).Token"]
	m["(*encoding/xml.Decoder).Decode"] = func(x *Exec, fr *frame, a []Value) Value {
		s, ok := a[0].(*Native).Data.(*streamObj)
		if !ok {
			panic(abortf("(*xml.Decoder).Decode inside a custom UnmarshalXML (no contract)"))
		}
		data, err := x.readAllFrom(fr, s.w)
		if err != nil {
			return err
		}
		return x.xmlDecode(data, a[1])
	}

	// encoding/json (health probe)
	m["encoding/json.NewEncoder"] = func(x *Exec, fr *frame, a []Value) Value {
		return &Native{Kind: "jsonenc", Data: &streamObj{w: a[0]}}
	}
	m["(*encoding/json.Encoder).Encode"] = func(x *Exec, fr *frame, a []Value) Value {
		s := a[0].(*Native).Data.(*streamObj)
		iv, ok := x.force(a[1]).(*IfaceV)
		if !ok || iv.T == nil {
			return x.writeTo(fr, s.w, StrC("null\n"))
		}
		return x.writeTo(fr, s.w, Concat(x.token("json", iv.V, iv.T), StrC("\n")))
	}

	// reflect, as far as http.MarshalJSONWithStatus and DeepEqual need it
	m["reflect.ValueOf"] = func(x *Exec, fr *frame, a []Value) Value {
		return &Native{Kind: "reflectvalue", Data: x.force(a[0])}
	}
	m["(reflect.Value).Kind"] = func(x *Exec, fr *frame, a []Value) Value {
		iv, _ := a[0].(*Native).Data.(*IfaceV)
		if iv == nil || iv.T == nil {
			return IntC(0) // reflect.Invalid
		}
		switch iv.T.Underlying().(type) {
		case *types.Pointer:
			return IntC(22) // reflect.Ptr
		case *types.Struct:
			return IntC(25)
		case *types.Slice:
			return IntC(23)
		case *types.Map:
			return IntC(21)
		case *types.Interface:
			return IntC(20)
		case *types.Signature:
			return IntC(19)
		case *types.Basic:
			if iv.T.Underlying().(*types.Basic).Info()&types.IsString != 0 {
				return IntC(24)
			}
			return IntC(2)
		}
		return IntC(25)
	}
	m["(reflect.Value).IsNil"] = func(x *Exec, fr *frame, a []Value) Value {
		iv, _ := a[0].(*Native).Data.(*IfaceV)
		if iv == nil || iv.T == nil {
			panic(&guestPanic{msg: "reflect: call of reflect.Value.IsNil on zero Value"})
		}
		n, ok := isNilValue(x.force(iv.V))
		if !ok {
			panic(&guestPanic{msg: "reflect: call of reflect.Value.IsNil on non-nillable Value"})
		}
		return BoolC(n)
	}
	m["reflect.DeepEqual"] = func(x *Exec, fr *frame, a []Value) Value {
		p, _ := x.force(a[0]).(*IfaceV)
		q, _ := x.force(a[1]).(*IfaceV)
		if p == nil || q == nil {
			panic(abortf("reflect.DeepEqual on non-interface operands"))
		}
		if p.T == nil || q.T == nil {
			return BoolC(p.T == nil && q.T == nil)
		}
		if !types.Identical(p.T, q.T) {
			return FalseT
		}
		return x.deepEqual(p.V, q.V, 0)
	}

	// pem
	m["encoding/pem.Encode"] = func(x *Exec, fr *frame, a []Value) Value {
		blk, ok := x.force(a[1]).(*Pointer)
		if !ok || blk.IsNil() {
			panic(&guestPanic{msg: "nil pointer dereference (*pem.Block)"})
		}
		bt := x.E.namedType("encoding/pem", "Block")
		typ := x.term(x.getField(blk, bt, "Type"))
		b := bytesTerm(x, x.getField(blk, bt, "Bytes"))
		return x.writeTo(fr, a[0], UF("pem", typ, b))
	}
	m["encoding/pem.EncodeToMemory"] = func(x *Exec, fr *frame, a []Value) Value {
		blk, ok := x.force(a[0]).(*Pointer)
		if !ok || blk.IsNil() {
			panic(&guestPanic{msg: "nil pointer dereference (*pem.Block)"})
		}
		bt := x.E.namedType("encoding/pem", "Block")
		typ := x.term(x.getField(blk, bt, "Type"))
		b := bytesTerm(x, x.getField(blk, bt, "Bytes"))
		return &BytesV{T: UF("pem", typ, b)}
	}
	m["encoding/pem.Decode"] = func(x *Exec, fr *frame, a []Value) Value {
		d := bytesTerm(x, a[0])
		bt := x.E.namedType("encoding/pem", "Block")
		mk := func(typ, b *Term) Value {
			c := x.newCell(zeroValue(bt), bt, "pem.Block")
			p := &Pointer{Cell: c}
			x.setField(p, bt, "Type", typ)
			x.setField(p, bt, "Bytes", &BytesV{T: b})
			return p
		}
		if d.Op == "uf" && d.S == "pem" {
			return TupleV{mk(d.Args[0], d.Args[1]), &BytesV{T: StrC("")}}
		}
		// arbitrary bytes: either no PEM block is found, or one with arbitrary content
		if name := x.certSymbol(d); name != "" {
			// ... of the DER bytes themselves, not of a PEM block
			x.assume(Implies(x.sym(name+".valid", SBool), Not(UFSort("pem.found", SBool, d))))
		}
		if x.Branch(UFSort("pem.found", SBool, d)) {
			return TupleV{mk(UF("pem.type", d), UF("pem.bytes", d)), &BytesV{T: UF("pem.rest", d)}}
		}
		return TupleV{NilPtr, &BytesV{T: d}}
	}
}

// readerContent returns the complete content a reader will deliver (no limit accounting).
func (x *Exec) readerContent(fr *frame, r Value) *Term {
	d, err := x.readAllFrom(fr, r)
	if err != nil {
		panic(abortf("nested reader that may fail"))
	}
	return d
}

// readAllFrom materialises the content of a reader; the number of bytes
// materialised from an inflating reader is recorded (C14).
func (x *Exec) readAllFrom(fr *frame, r Value) (*Term, Value) {
	r = x.force(r)
	if iv, ok := r.(*IfaceV); ok {
		if iv.T == nil {
			panic(&guestPanic{msg: "nil pointer dereference (read from nil reader)"})
		}
		r = x.force(iv.V)
	}
	switch v := r.(type) {
	case *Pointer: // *bytes.Buffer
		if v.IsNil() {
			panic(&guestPanic{msg: "nil pointer dereference (read from nil *bytes.Buffer)"})
		}
		return bytesTerm(x, x.getField(v, x.E.namedType("bytes", "Buffer"), "buf")), nil
	case *Native:
		switch v.Kind {
		case "reader":
			return v.Data.(*streamObj).content, nil
		case "bodyreader":
			s := v.Data.(*streamObj)
			if s.failed != nil && x.Branch(s.failed) {
				return nil, x.libError("body read")
			}
			return s.content, nil
		case "flater":
			s := v.Data.(*streamObj)
			data, err := x.inflate(s.content)
			if err != nil {
				return nil, err
			}
			x.materialised = append(x.materialised, x.lenOf(data))
			return data, nil
		case "limitr":
			s := v.Data.(*streamObj)
			inner := x.force(s.w)
			if iv, ok := inner.(*IfaceV); ok && iv.T != nil {
				inner = x.force(iv.V)
			}
			if n, ok := inner.(*Native); ok && n.Kind == "flater" {
				data, err := x.inflate(n.Data.(*streamObj).content)
				if err != nil {
					return nil, err
				}
				if x.Branch(Le(x.lenOf(data), s.limit)) {
					x.materialised = append(x.materialised, x.lenOf(data))
					return data, nil
				}
				x.materialised = append(x.materialised, s.limit)
				if s.kind == "maxbytes" {
					return nil, x.errorC("http: request body too large")
				}
				// the first limit bytes. When the content starts with a complete document
				// that fits, the prefix is that document followed by a cut tail (the XML
				// decoder stops after the root element) ...
				if doc, docLen, ok := x.leadingDocument(data); ok && x.Branch(Le(docLen, s.limit)) {
					tail := x.fresh("cuttail", SStr)
					x.knownLen[tail.S] = Sub(s.limit, docLen)
					return Concat(doc, tail), nil
				}
				// ... otherwise a prefix of known length that is not a complete document
				tr := x.fresh("truncated", SStr)
				x.knownLen[tr.S] = s.limit
				x.setAttr(tr, "undecodable")
				x.assume(PrefixOf(tr, data))
				return tr, nil
			}
			data, err := x.readAllFrom(fr, s.w)
			if err != nil {
				return nil, err
			}
			if x.Branch(Le(Len(data), s.limit)) {
				return data, nil
			}
			if s.kind == "maxbytes" {
				return nil, x.errorC("http: request body too large")
			}
			return Substr(data, IntC(0), s.limit), nil
		}
	}
	panic(abortf("read from %T (no stream contract)", r))
}

// cdataFields applies the end-of-line normalisation of XML parsers to the string
// fields the encoder writes as CDATA (the only tag-level rule modelled, DESIGN §9.13).
func (x *Exec) cdataFields(p *Pointer, t types.Type, depth int) {
	if depth > 30 || !typeMentionsCDATA(t, map[string]bool{}) {
		return
	}
	switch u := t.Underlying().(type) {
	case *types.Struct:
		for i := 0; i < u.NumFields(); i++ {
			fp := p.sub(i)
			if strings.Contains(u.Tag(i), ",cdata") {
				if v, ok := x.load(fp).(*Term); ok && v.Sort == SStr {
					x.store(fp, UF("crnorm", v))
				}
				continue
			}
			x.cdataFields(fp, u.Field(i).Type(), depth+1)
		}
	case *types.Pointer:
		if q, ok := x.force(x.load(p)).(*Pointer); ok && !q.IsNil() {
			x.cdataFields(q, u.Elem(), depth+1)
		}
	case *types.Slice:
		if s, ok := x.force(x.load(p)).(*SliceV); ok && s.Arr != nil && !isByteSlice(t) {
			for i := 0; i < s.Len; i++ {
				x.cdataFields(&Pointer{Cell: s.Arr, Path: []int{s.Off + i}}, u.Elem(), depth+1)
			}
		}
	}
}

var cdataMemo sync.Map

func typeMentionsCDATA(t types.Type, seen map[string]bool) bool {
	k := t.String()
	if v, ok := cdataMemo.Load(k); ok {
		return v.(bool)
	}
	if seen[k] {
		return false
	}
	seen[k] = true
	r := false
	switch u := t.Underlying().(type) {
	case *types.Struct:
		for i := 0; i < u.NumFields() && !r; i++ {
			r = strings.Contains(u.Tag(i), ",cdata") || typeMentionsCDATA(u.Field(i).Type(), seen)
		}
	case *types.Pointer:
		r = typeMentionsCDATA(u.Elem(), seen)
	case *types.Slice:
		r = typeMentionsCDATA(u.Elem(), seen)
	}
	if len(seen) == 1 {
		cdataMemo.Store(k, r)
	}
	return r
}

// leadingDocument: data begins with one complete serialised document (optionally
// after the XML header) and goes on with other bytes.
func (x *Exec) leadingDocument(data *Term) (doc *Term, docLen *Term, ok bool) {
	ps := flatten(data)
	i := 0
	if len(ps) > 0 && ps[0].IsConst() && ps[0].S == xmlHeader {
		i = 1
	}
	if i >= len(ps) || ps[i].Op != "sym" {
		return nil, nil, false
	}
	if tk, isTok := x.xmlTokens[ps[i].S]; !isTok || tk.Kind != "xml" {
		return nil, nil, false
	}
	if i+1 >= len(ps) {
		return nil, nil, false // nothing follows: tokenOf handles it
	}
	doc = Concat(ps[:i+1]...)
	return doc, x.lenOf(doc), true
}

// inflate is the DEFLATE decoder contract.
func (x *Exec) inflate(src *Term) (*Term, Value) {
	src = x.shape(src)
	if src.Op == "uf" && src.S == "deflate" {
		return src.Args[0], nil
	}
	if src.Op == "uf" && (src.S == "zlibwrap" || src.S == "gzipwrap") {
		return nil, x.errorC("flate: corrupt input") // a zlib / gzip header is not a valid DEFLATE block header
	}
	if src.IsConst() || x.attr(src, "undecodable") {
		if _, ok := x.tokenOf(src); !ok && src.IsConst() && src.S != "" {
			// concrete bytes: not produced by our deflate contract
		}
		return nil, x.errorC("flate: corrupt input")
	}
	if _, ok := x.tokenOf(src); ok {
		return nil, x.errorC("flate: corrupt input") // well-formed XML is not a DEFLATE stream
	}
	if !x.Branch(UFSort("inflate.ok", SBool, src)) {
		return nil, x.errorC("flate: corrupt input")
	}
	return UF("inflate", src), nil
}

// xmlDecode is the Level S decode contract (DESIGN §3.4).
func (x *Exec) xmlDecode(data *Term, target Value) Value {
	data = x.shape(data)
	iv, ok := x.force(target).(*IfaceV)
	if !ok || iv.T == nil {
		return x.errorC("xml: non-pointer passed to Unmarshal")
	}
	p, ok := x.force(iv.V).(*Pointer)
	if !ok {
		return x.errorC("xml: non-pointer passed to Unmarshal")
	}
	if p.IsNil() {
		return x.errorC("xml: non-pointer passed to Unmarshal")
	}
	et := iv.T.Underlying().(*types.Pointer).Elem()
	if tok, ok := x.tokenOf(data); !ok {
		// contract: Unmarshal reads the first element and ignores what follows it
		if doc, _, ok2 := x.leadingDocument(data); ok2 {
			data = doc
		}
		_ = tok
	}
	if tok, ok := x.tokenOf(data); ok && tok.Kind == "xml" {
		tt := tok.Typ
		if pt, ok := tt.Underlying().(*types.Pointer); ok {
			tt = pt.Elem()
		}
		if types.Identical(tt, et) {
			obj := x.deepCopy(tok.Obj, 0)
			if op, ok := obj.(*Pointer); ok {
				obj = x.load(op)
			}
			x.store(p, obj)
			// fields written as CDATA sections (tag ",cdata") come back with CR / CRLF turned into
			// LF: inside CDATA a CR cannot be written as a character reference
			x.cdataFields(p, et, 0)
			// custom UnmarshalXML / UnmarshalText methods of module types
			if r := x.xmlDecodeHooks(nil, p, et, false); r != nil {
				return r
			}
			return NilIface
		}
		return x.errorC("xml: document of another type (expected element type mismatch)")
	}
	if data.IsConst() || x.attr(data, "undecodable") {
		return x.errorC("xml: syntax error / EOF")
	}
	if data.Op == "uf" && (data.S == "deflate" || strings.HasPrefix(data.S, "b64") || escapeUF[data.S]) {
		return x.errorC("xml: syntax error") // encoded bytes are not XML
	}
	// unknown bytes: not XML, or some document of the target type
	if !x.Branch(UFSort("xml.ok."+et.String(), SBool, data)) {
		return x.errorC("xml: syntax error / EOF")
	}
	x.tokenSeq++
	x.store(p, x.lazyValue(et, fmt.Sprintf("xmlany%d", x.tokenSeq)))
	x.unreplayable = append(x.unreplayable, "xml document decoded from bytes the harness did not build")
	return NilIface
}

// deepEqual: structural equality as reflect.DeepEqual defines it for the
// value shapes the module compares.
func (x *Exec) deepEqual(a, b Value, depth int) *Term {
	a, b = x.force(a), x.force(b)
	if depth > 30 {
		panic(abortf("DeepEqual too deep"))
	}
	switch av := a.(type) {
	case *Term:
		if bv, ok := b.(*Term); ok {
			return Eq(av, bv)
		}
	case *Pointer:
		bv, ok := b.(*Pointer)
		if !ok {
			return FalseT
		}
		if av.IsNil() || bv.IsNil() {
			return BoolC(av.IsNil() && bv.IsNil())
		}
		if samePointer(av, bv) {
			return TrueT
		}
		return x.deepEqual(x.load(av), x.load(bv), depth+1)
	case *StructV:
		bv, ok := b.(*StructV)
		if !ok || len(av.F) != len(bv.F) {
			return FalseT
		}
		r := TrueT
		for i := range av.F {
			r = And(r, x.deepEqual(av.F[i], bv.F[i], depth+1))
		}
		return r
	case *SliceV:
		bv, ok := b.(*SliceV)
		if !ok {
			return FalseT
		}
		if (av.Arr == nil) != (bv.Arr == nil) || av.Len != bv.Len {
			return FalseT
		}
		r := TrueT
		ea, eb := x.sliceElems(av), x.sliceElems(bv)
		for i := range ea {
			r = And(r, x.deepEqual(ea[i], eb[i], depth+1))
		}
		return r
	case *BytesV:
		bv, ok := b.(*BytesV)
		if !ok {
			return FalseT
		}
		if av.Nil != bv.Nil {
			return And(Eq(av.T, StrC("")), Eq(bv.T, StrC("")), FalseT)
		}
		return Eq(av.T, bv.T)
	case *IfaceV:
		bv, ok := b.(*IfaceV)
		if !ok {
			return FalseT
		}
		if av.T == nil || bv.T == nil {
			return BoolC(av.T == nil && bv.T == nil)
		}
		if !types.Identical(av.T, bv.T) {
			return FalseT
		}
		return x.deepEqual(av.V, bv.V, depth+1)
	case *ArrayV:
		bv, ok := b.(*ArrayV)
		if !ok || len(av.E) != len(bv.E) {
			return FalseT
		}
		r := TrueT
		for i := range av.E {
			r = And(r, x.deepEqual(av.E[i], bv.E[i], depth+1))
		}
		return r
	case *TimeV:
		if bv, ok := b.(*TimeV); ok {
			return Eq(av.NS, bv.NS)
		}
	case *Native:
		return BoolC(a == b)
	case *MapV:
		bv, ok := b.(*MapV)
		if ok && av.M == bv.M {
			return TrueT
		}
	}
	panic(abortf("DeepEqual of %T and %T", a, b))
}

// lenOf is len(t), using the integer length recorded for payload symbols.
func (x *Exec) lenOf(t *Term) *Term {
	if t.Op == "sym" {
		if n, ok := x.knownLen[t.S]; ok {
			return n
		}
	}
	if t.Op == "++" {
		sum := IntC(0)
		for _, p := range t.Args {
			sum = Add(sum, x.lenOf(p))
		}
		return sum
	}
	return Len(t)
}
