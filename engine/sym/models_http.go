package sym

import (
	"fmt"
	"go/types"
	"net/http"
	"net/url"
	"sort"
	"strings"
)

// ---------------------------------------------------------------------------
// HTTP model (DESIGN §3.5): requests with symbolic parameters, a response
// writer that logs what is written, gorilla/mux as a route table, context.

// nativeType is the dynamic type of interface values that hold engine objects.
var nativeType = types.NewNamed(types.NewTypeName(0, nil, "symgo.native", nil), types.NewStruct(nil, nil), nil)

func nativeIface(kind string, data interface{}) *IfaceV {
	return &IfaceV{T: nativeType, V: &Native{Kind: kind, Data: data}}
}

func (e *Engine) namedType(pkg, name string) types.Type {
	p := e.Prog.ImportedPackage(pkg)
	if p == nil {
		panic(abortf("package %s not loaded", pkg))
	}
	m := p.Members[name]
	if m == nil {
		panic(abortf("type %s.%s not found", pkg, name))
	}
	return m.Type()
}

func (x *Exec) fieldIdx(t types.Type, name string) int {
	i := structFieldIndex(t, name)
	if i < 0 {
		panic(abortf("field %s not found in %s", name, t))
	}
	return i
}

func (x *Exec) getField(p *Pointer, t types.Type, name string) Value {
	return x.load(p.sub(x.fieldIdx(t, name)))
}

func (x *Exec) setField(p *Pointer, t types.Type, name string, v Value) {
	i := x.fieldIdx(t, name)
	p.Cell.V = update(p.Cell.V, append(append([]int{}, p.Path...), i), v)
}

// ---- request

type paramInfo struct {
	key          string
	qHas, bHas   *Term
	qVal, bVal   *Term
	qRaw         *Term // the value as it stands in the raw query (nil: Go's QueryEscape of qVal)
}

type reqInfo struct {
	name      string
	method    *Term
	path      *Term
	host      *Term
	params    map[string]*paramInfo
	order     []string
	body      *Term // raw body (SOAP endpoint)
	bodyFail  *Term
	parseFail *Term
	parsed    bool
	form      *MapObj
	postForm  *MapObj
	query     *MapObj
	headers   *MapObj
	lazyExtra bool
	url       *urlInfo
	explicitHdr map[string][]Value
	rawParts    []Value // the raw query, once inspected (models_strings.go)
	queryClosed bool    // no further parameters in the query
}

type urlInfo struct {
	req      *reqInfo // request URL: Query() is the request's query map
	rawQuery *Term
	simple   bool // built by the harness from components over plain alphabets
	shaped   bool // parsed from symbolic text under the two-shape contract
}

func (x *Exec) param(ri *reqInfo, key string) *paramInfo {
	if p, ok := ri.params[key]; ok {
		return p
	}
	p := &paramInfo{key: key}
	if ri.lazyExtra {
		// an arbitrary further parameter: presence and value symbolic
		p.qHas = x.sym(ri.name+".q."+key+"?", SBool)
		p.qVal = x.sym(ri.name+".q."+key, SStr)
		if ri.queryClosed {
			p.qHas = FalseT
		}
		p.bHas = x.sym(ri.name+".b."+key+"?", SBool)
		p.bVal = x.sym(ri.name+".b."+key, SStr)
		x.assume(Implies(p.bHas, bodyMethod(ri.method)))
	} else {
		p.qHas, p.bHas, p.qVal, p.bVal = FalseT, FalseT, StrC(""), StrC("")
	}
	ri.params[key] = p
	ri.order = append(ri.order, key)
	return p
}

func bodyMethod(m *Term) *Term {
	return Or(Eq(m, StrC("POST")), Eq(m, StrC("PUT")), Eq(m, StrC("PATCH")))
}

// formFirst is FormValue / Values.Get on r.Form: body first, then query.
func (p *paramInfo) formFirst() *Term {
	return Ite(p.bHas, p.bVal, Ite(p.qHas, p.qVal, StrC("")))
}

type lazyMapSpec struct {
	kind string // form | postform | query | header
	req  *reqInfo
}

func (x *Exec) lazyEntry(m *MapObj, key string) *MapEntry {
	sp := m.Lazy
	ri := sp.req
	switch sp.kind {
	case "form", "postform", "query":
		p := x.param(ri, key)
		var present *Term
		switch sp.kind {
		case "form":
			present = Or(p.bHas, p.qHas)
		case "postform":
			present = p.bHas
		default:
			present = p.qHas
		}
		e := &MapEntry{Key: StrC(key), Present: present}
		e.Val = &LazyRef{Name: "formvals", Typ: nil, Resolved: nil}
		e.Val = &formVals{p: p, kind: sp.kind}
		m.Entries = append(m.Entries, e)
		return e
	case "header":
		if ri.explicitHdr != nil {
			// the harness gave the headers explicitly: nothing else is present
			vals, ok := ri.explicitHdr[key]
			e := &MapEntry{Key: StrC(key), Present: BoolC(ok && len(vals) > 0), Val: x.makeSlice(vals)}
			m.Entries = append(m.Entries, e)
			return e
		}
		has := x.sym(ri.name+".h."+key+"?", SBool)
		n := x.sym(ri.name+".h."+key+"#", SInt)
		e := &MapEntry{Key: StrC(key), Present: has, Val: &headerVals{name: ri.name + ".h." + key, n: n}}
		m.Entries = append(m.Entries, e)
		return e
	}
	panic(abortf("lazy map kind %s", sp.kind))
}

// formVals / headerVals are slice values materialised on demand.
type formVals struct {
	p    *paramInfo
	kind string
}
type headerVals struct {
	name string
	n    *Term
}

// forceVals turns a lazy value list into a concrete slice (forks).
func (x *Exec) forceVals(v Value) Value {
	switch a := v.(type) {
	case *formVals:
		var elems []Value
		switch a.kind {
		case "form":
			if x.Branch(a.p.bHas) {
				elems = append(elems, a.p.bVal)
			}
			if x.Branch(a.p.qHas) {
				elems = append(elems, a.p.qVal)
			}
		case "postform":
			elems = append(elems, a.p.bVal)
		default:
			elems = append(elems, a.p.qVal)
		}
		return x.makeSlice(elems)
	case *headerVals:
		max := 2
		x.bounds["values per request header"] = max
		x.assume(Le(IntC(1), a.n))
		x.assume(Le(a.n, IntC(int64(max))))
		n := max
		for i := 1; i < max; i++ {
			if x.Branch(Eq(a.n, IntC(int64(i)))) {
				n = i
				break
			}
		}
		var elems []Value
		for i := 0; i < n; i++ {
			elems = append(elems, x.sym(fmt.Sprintf("%s[%d]", a.name, i), SStr))
		}
		return x.makeSlice(elems)
	}
	return v
}

func (x *Exec) reqOf(v Value) (*Pointer, *reqInfo) {
	p, ok := x.force(v).(*Pointer)
	if !ok || p.IsNil() {
		panic(&guestPanic{msg: "nil pointer dereference (*http.Request)"})
	}
	ri := x.reqs[p.Cell]
	if ri == nil {
		panic(abortf("*http.Request not created by the harness runtime"))
	}
	return p, ri
}

func (x *Exec) ensureParsed(p *Pointer, ri *reqInfo) {
	rt := x.E.namedType("net/http", "Request")
	if !ri.parsed {
		ri.parsed = true
		ri.form = &MapObj{Epoch: x.epoch, Lazy: &lazyMapSpec{"form", ri}}
		ri.postForm = &MapObj{Epoch: x.epoch, Lazy: &lazyMapSpec{"postform", ri}}
	}
	x.setField(p, rt, "Form", &MapV{M: ri.form})
	x.setField(p, rt, "PostForm", &MapV{M: ri.postForm})
}

func registerHTTPModels(e *Engine) {
	m := e.Models
	reqT := func() types.Type { return e.namedType("net/http", "Request") }

	m["(*net/http.Request).ParseForm"] = func(x *Exec, fr *frame, a []Value) Value {
		p, ri := x.reqOf(a[0])
		first := !ri.parsed
		x.ensureParsed(p, ri)
		if first && x.Branch(ri.parseFail) {
			return x.libError("ParseForm")
		}
		if !first {
			// a second call returns the same result as the first
			if x.Branch(ri.parseFail) {
				return x.libError("ParseForm")
			}
		}
		return NilIface
	}
	m["(*net/http.Request).FormValue"] = func(x *Exec, fr *frame, a []Value) Value {
		p, ri := x.reqOf(a[0])
		x.ensureParsed(p, ri)
		key := x.constStr(a[1], "FormValue key")
		return x.param(ri, key).formFirst()
	}
	m["(*net/http.Request).PostFormValue"] = func(x *Exec, fr *frame, a []Value) Value {
		p, ri := x.reqOf(a[0])
		x.ensureParsed(p, ri)
		pi := x.param(ri, x.constStr(a[1], "PostFormValue key"))
		return Ite(pi.bHas, pi.bVal, StrC(""))
	}
	m["(*net/http.Request).Context"] = func(x *Exec, fr *frame, a []Value) Value {
		p, _ := x.reqOf(a[0])
		c := x.getField(p, reqT(), "ctx")
		if iv, ok := c.(*IfaceV); ok && iv.T != nil {
			return iv
		}
		return nativeIface("ctx", &ctxNode{})
	}
	m["(*net/http.Request).WithContext"] = func(x *Exec, fr *frame, a []Value) Value {
		p, ri := x.reqOf(a[0])
		ctx, ok := a[1].(*IfaceV)
		if !ok || ctx.T == nil {
			panic(&guestPanic{msg: "panic(nil context)"})
		}
		c := x.newCell(p.Cell.V, p.Cell.Typ, "request.WithContext")
		np := &Pointer{Cell: c}
		x.setField(np, reqT(), "ctx", ctx)
		x.reqs[c] = ri
		return np
	}
	m["(*net/url.URL).Query"] = func(x *Exec, fr *frame, a []Value) Value {
		p, ok := a[0].(*Pointer)
		if !ok || p.IsNil() {
			panic(&guestPanic{msg: "nil pointer dereference (*url.URL)"})
		}
		ui := x.urlInfos[p.Cell]
		if ui != nil && ui.req != nil {
			if ui.req.query == nil {
				ui.req.query = &MapObj{Epoch: x.epoch, Lazy: &lazyMapSpec{"query", ui.req}}
			}
			return &MapV{M: ui.req.query}
		}
		ut := x.E.namedType("net/url", "URL")
		rq := x.term(x.getField(p, ut, "RawQuery"))
		if rq.IsConst() {
			vals, _ := url.ParseQuery(rq.S)
			mo := &MapObj{Epoch: x.epoch}
			var keys []string
			for k := range vals {
				keys = append(keys, k)
			}
			sort.Strings(keys)
			for _, k := range keys {
				var es []Value
				for _, v := range vals[k] {
					es = append(es, StrC(v))
				}
				mo.Entries = append(mo.Entries, &MapEntry{Key: StrC(k), Present: TrueT, Val: x.makeSlice(es)})
			}
			return &MapV{M: mo}
		}
		// symbolic raw query: empty iff the raw query is empty; otherwise one
		// entry whose presence is symbolic ("a=b" has one, "&" has none)
		mo := &MapObj{Epoch: x.epoch}
		has := UFSort("urlquery.nonempty", SBool, rq)
		x.assume(Implies(Eq(rq, StrC("")), Not(has)))
		if ui != nil && (ui.simple || ui.shaped) {
			// query over [a-z0-9=]*: one key whenever it is not empty
			x.assume(Eq(has, Not(Eq(rq, StrC("")))))
		}
		mo.Entries = append(mo.Entries, &MapEntry{Key: UF("urlquery.key", rq), Present: has, Val: x.makeSlice([]Value{UF("urlquery.val", rq)})})
		return &MapV{M: mo}
	}
	m["(net/url.Values).Get"] = func(x *Exec, fr *frame, a []Value) Value {
		mv, ok := a[0].(*MapV)
		if !ok {
			panic(abortf("Values.Get on %T", a[0]))
		}
		if mv.M == nil {
			return StrC("")
		}
		key := x.term(a[1])
		if mv.M.Lazy != nil && key.IsConst() {
			p := x.param(mv.M.Lazy.req, key.S)
			switch mv.M.Lazy.kind {
			case "form":
				return p.formFirst()
			case "postform":
				return Ite(p.bHas, p.bVal, StrC(""))
			case "query":
				return Ite(p.qHas, p.qVal, StrC(""))
			}
		}
		v, okT := x.mapLookup(mv, key, nil)
		if okT.IsFalse() {
			return StrC("")
		}
		es := x.sliceElems(v)
		if len(es) == 0 {
			return StrC("")
		}
		return es[0]
	}
	m["(net/url.Values).Set"] = func(x *Exec, fr *frame, a []Value) Value {
		x.mapUpdate(a[0].(*MapV), a[1], x.makeSlice([]Value{a[2]}))
		return nil
	}
	m["(net/url.Values).Has"] = func(x *Exec, fr *frame, a []Value) Value {
		_, ok := x.mapLookup(a[0].(*MapV), a[1], nil)
		return ok
	}

	// headers
	m["net/http.CanonicalHeaderKey"] = func(x *Exec, fr *frame, a []Value) Value {
		t := x.term(a[0])
		if t.IsConst() {
			return StrC(http.CanonicalHeaderKey(t.S))
		}
		return UF("canonhdr", t)
	}
	hdrKey := func(x *Exec, v Value) Value {
		t := x.term(v)
		if t.IsConst() {
			return StrC(http.CanonicalHeaderKey(t.S))
		}
		return UF("canonhdr", t)
	}
	m["(net/http.Header).Set"] = func(x *Exec, fr *frame, a []Value) Value {
		x.mapUpdate(a[0].(*MapV), hdrKey(x, a[1]), x.makeSlice([]Value{a[2]}))
		return nil
	}
	m["(net/http.Header).Add"] = func(x *Exec, fr *frame, a []Value) Value {
		mv := a[0].(*MapV)
		k := hdrKey(x, a[1])
		old, ok := x.mapLookup(mv, k, nil)
		var es []Value
		if !ok.IsFalse() {
			es = x.sliceElems(old)
		}
		x.mapUpdate(mv, k, x.makeSlice(append(es, a[2])))
		return nil
	}
	m["(net/http.Header).Get"] = func(x *Exec, fr *frame, a []Value) Value {
		mv := a[0].(*MapV)
		if mv.M == nil {
			return StrC("")
		}
		v, ok := x.mapLookup(mv, hdrKey(x, a[1]), nil)
		if ok.IsFalse() {
			return StrC("")
		}
		es := x.sliceElems(v)
		if len(es) == 0 {
			return StrC("")
		}
		return es[0]
	}
	m["(net/http.Header).Del"] = func(x *Exec, fr *frame, a []Value) Value {
		mv := a[0].(*MapV)
		if mv.M == nil {
			return nil
		}
		k := hdrKey(x, a[1])
		for _, e := range mv.M.Entries {
			if x.Branch(x.keyEq(e.Key, k)) {
				e.Present = FalseT
				break
			}
		}
		return nil
	}

	// response writer
	e.NativeMeth["respwriter.Header"] = func(x *Exec, fr *frame, a []Value) Value {
		w := a[0].(*Native).Data.(*respWriter)
		return &MapV{M: w.hdr}
	}
	e.NativeMeth["respwriter.WriteHeader"] = func(x *Exec, fr *frame, a []Value) Value {
		w := a[0].(*Native).Data.(*respWriter)
		w.events = append(w.events, "WriteHeader")
		w.writeHeaderCalls++
		if !w.wroteHeader {
			w.wroteHeader = true
			w.code = x.term(a[1])
			w.snapHeaders(x)
		}
		return nil
	}
	e.NativeMeth["respwriter.Write"] = func(x *Exec, fr *frame, a []Value) Value {
		w := a[0].(*Native).Data.(*respWriter)
		if !w.wroteHeader {
			w.wroteHeader = true
			w.code = IntC(200)
			w.snapHeaders(x)
		}
		var t *Term
		switch d := a[1].(type) {
		case *BytesV:
			t = d.T
		case *Term:
			t = d
		default:
			panic(abortf("ResponseWriter.Write of %T", a[1]))
		}
		w.writes++
		w.body = append(w.body, flatten(t)...)
		return TupleV{Len(t), NilIface}
	}
	m["net/http.Error"] = func(x *Exec, fr *frame, a []Value) Value {
		w := a[0]
		h := x.invoke(fr, w, "Header", nil, nil, nil)
		x.callModel("(net/http.Header).Del", fr, h, StrC("Content-Length"))
		x.callModel("(net/http.Header).Set", fr, h, StrC("Content-Type"), StrC("text/plain; charset=utf-8"))
		x.callModel("(net/http.Header).Set", fr, h, StrC("X-Content-Type-Options"), StrC("nosniff"))
		x.invoke(fr, w, "WriteHeader", nil, []Value{a[2]}, nil)
		x.invoke(fr, w, "Write", nil, []Value{&BytesV{T: Concat(x.term(a[1]), StrC("\n"))}}, nil)
		return nil
	}
	m["net/http.NotFound"] = func(x *Exec, fr *frame, a []Value) Value {
		return m["net/http.Error"](x, fr, []Value{a[0], StrC("404 page not found"), IntC(404)})
	}
	m["net/http.Redirect"] = func(x *Exec, fr *frame, a []Value) Value {
		w := a[0]
		h := x.invoke(fr, w, "Header", nil, nil, nil)
		// contract: the URL argument is absolute (registered URLs are); net/http
		// then only hex-escapes non-ASCII bytes, which vrtSameURL tolerates natively
		x.callModel("(net/http.Header).Set", fr, h, StrC("Location"), a[2])
		x.invoke(fr, w, "WriteHeader", nil, []Value{a[3]}, nil)
		if rw, ok := w.(*IfaceV); ok {
			if n, ok := rw.V.(*Native); ok && n.Kind == "respwriter" {
				n.Data.(*respWriter).redirects++
			}
		}
		return nil
	}
	m["(net/http.HandlerFunc).ServeHTTP"] = func(x *Exec, fr *frame, a []Value) Value {
		f, ok := a[0].(*FuncV)
		if !ok {
			panic(abortf("HandlerFunc is %T", a[0]))
		}
		return x.callFuncV(fr, f, []Value{a[1], a[2]}, nil)
	}

	// context
	m["context.WithValue"] = func(x *Exec, fr *frame, a []Value) Value {
		parent, _ := a[0].(*IfaceV)
		if parent == nil || parent.T == nil {
			panic(&guestPanic{msg: "panic(cannot create context from nil parent)"})
		}
		var pn *ctxNode
		if n, ok := parent.V.(*Native); ok && n.Kind == "ctx" {
			pn = n.Data.(*ctxNode)
		}
		return nativeIface("ctx", &ctxNode{parent: pn, key: a[1], val: a[2]})
	}
	m["context.Background"] = func(x *Exec, fr *frame, a []Value) Value { return nativeIface("ctx", &ctxNode{}) }
	m["context.TODO"] = m["context.Background"]
	e.NativeMeth["ctx.Value"] = func(x *Exec, fr *frame, a []Value) Value {
		n := a[0].(*Native).Data.(*ctxNode)
		for ; n != nil; n = n.parent {
			if n.key == nil {
				continue
			}
			if x.Branch(x.valuesEqual(n.key, a[1], nil)) {
				return n.val
			}
		}
		return NilIface
	}

	// gorilla/mux as a route table; gorilla/handlers CORS passes requests through
	m["github.com/gorilla/mux.NewRouter"] = func(x *Exec, fr *frame, a []Value) Value {
		return &Native{Kind: "router", Data: &routerObj{}}
	}
	m["(*github.com/gorilla/mux.Router).Use"] = func(x *Exec, fr *frame, a []Value) Value {
		r := a[0].(*Native).Data.(*routerObj)
		for _, mw := range x.sliceElems(a[1]) {
			r.middleware = append(r.middleware, mw)
		}
		return nil
	}
	m["(*github.com/gorilla/mux.Router).HandleFunc"] = func(x *Exec, fr *frame, a []Value) Value {
		r := a[0].(*Native).Data.(*routerObj)
		r.routes = append(r.routes, &routeObj{path: x.term(a[1]), fn: a[2]})
		return &Native{Kind: "muxroute"}
	}
	m["(*github.com/gorilla/mux.Router).Handle"] = func(x *Exec, fr *frame, a []Value) Value {
		r := a[0].(*Native).Data.(*routerObj)
		r.routes = append(r.routes, &routeObj{path: x.term(a[1]), handler: a[2]})
		return &Native{Kind: "muxroute"}
	}
	m["(*github.com/gorilla/mux.Router).ServeHTTP"] = func(x *Exec, fr *frame, a []Value) Value {
		r := a[0].(*Native).Data.(*routerObj)
		rp, ri := x.reqOf(a[2])
		_ = rp
		for _, rt := range r.routes {
			if !x.Branch(Eq(rt.path, ri.path)) {
				continue
			}
			var h Value
			if rt.handler != nil {
				h = rt.handler
			} else {
				h = &IfaceV{T: x.E.namedType("net/http", "HandlerFunc"), V: rt.fn}
			}
			for i := len(r.middleware) - 1; i >= 0; i-- {
				mw, ok := x.force(r.middleware[i]).(*FuncV)
				if !ok {
					panic(abortf("middleware is %T", r.middleware[i]))
				}
				h = x.callFuncV(fr, mw, []Value{h}, nil)
			}
			x.invoke(fr, h, "ServeHTTP", nil, []Value{a[1], a[2]}, nil)
			return nil
		}
		return m["net/http.NotFound"](x, fr, []Value{a[1], a[2]})
	}
	e.NativeMeth["router.ServeHTTP"] = func(x *Exec, fr *frame, a []Value) Value {
		return m["(*github.com/gorilla/mux.Router).ServeHTTP"](x, fr, a)
	}
	for _, n := range []string{"AllowCredentials", "AllowedHeaders", "AllowedOriginValidator", "AllowedMethods", "AllowedOrigins"} {
		m["github.com/gorilla/handlers."+n] = func(x *Exec, fr *frame, a []Value) Value { return &FuncV{Name: "corsoption"} }
	}
	m["github.com/gorilla/handlers.CORS"] = func(x *Exec, fr *frame, a []Value) Value {
		// contract: every non-preflight request is passed to the wrapped handler unchanged
		return &FuncV{Name: "cors", Native: func(x *Exec, args []Value) Value { return args[0] }}
	}

	// html/template (and text/template, so that a swap is visible at the sink)
	for _, pkg := range []string{"html/template", "text/template"} {
		pkg := pkg
		m[pkg+".New"] = func(x *Exec, fr *frame, a []Value) Value {
			return &Native{Kind: "template", Data: &tmplObj{pkg: pkg, name: x.term(a[0])}}
		}
		m["(*"+pkg+".Template).Parse"] = func(x *Exec, fr *frame, a []Value) Value {
			t := a[0].(*Native).Data.(*tmplObj)
			t.text = x.term(a[1])
			return TupleV{a[0], NilIface}
		}
		m[pkg+".Must"] = func(x *Exec, fr *frame, a []Value) Value { return a[0] }
		m["(*"+pkg+".Template).Execute"] = func(x *Exec, fr *frame, a []Value) Value {
			n, ok := a[0].(*Native)
			if !ok {
				panic(&guestPanic{msg: "nil pointer dereference (*template.Template)"})
			}
			t := n.Data.(*tmplObj)
			data := x.force(a[2])
			iv, _ := data.(*IfaceV)
			if iv == nil || iv.T == nil {
				panic(abortf("template executed on nil data"))
			}
			x.renderSeq++
			name := fmt.Sprintf("render!%d", x.renderSeq)
			tok := x.sym(name, SStr)
			x.renders[name] = &renderInfo{tmpl: t, dataT: iv.T, data: x.deepCopy(iv.V, 0)}
			x.assume(PrefixOf(StrC("\n<!DOCTYPE"), tok))
			// the page contains a '%' iff one of the substituted strings does (the
			// module's template text has none, escaping neither adds nor removes one)
			if t.text != nil && t.text.IsConst() && !strings.Contains(t.text.S, "%") {
				anyPct := FalseT
				if sv, ok := x.force(x.renders[name].data).(*StructV); ok {
					for _, fv := range sv.F {
						if ft, ok := fv.(*Term); ok && ft.Sort == SStr {
							anyPct = Or(anyPct, Contains(ft, StrC("%")))
						}
					}
					x.assume(Eq(Contains(tok, StrC("%")), anyPct))
				}
			}
			r := x.invoke(fr, a[1], "Write", nil, []Value{&BytesV{T: tok}}, nil)
			if tv, ok := r.(TupleV); ok {
				return tv[1]
			}
			return NilIface
		}
		// a template behind an interface (e.g. the module's own page-template interface)
		e.NativeMeth["template.Execute"] = m["(*"+pkg+".Template).Execute"]
	}
}

func (x *Exec) callModel(name string, fr *frame, args ...Value) Value {
	m, ok := x.E.Models[name]
	if !ok {
		panic(abortf("internal: model %s missing", name))
	}
	return m(x, fr, args)
}

type ctxNode struct {
	parent   *ctxNode
	key, val Value
}

type routeObj struct {
	path    *Term
	fn      Value
	handler Value
}
type routerObj struct {
	routes     []*routeObj
	middleware []Value
}

type tmplObj struct {
	pkg  string
	name *Term
	text *Term
}

type renderInfo struct {
	tmpl  *tmplObj
	dataT types.Type
	data  Value
}

type respWriter struct {
	hdr              *MapObj
	snap             []*MapEntry
	wroteHeader      bool
	code             *Term
	body             []*Term
	writes           int
	writeHeaderCalls int
	redirects        int
	events           []string
}

func (w *respWriter) snapHeaders(x *Exec) {
	w.snap = nil
	for _, e := range w.hdr.Entries {
		w.snap = append(w.snap, &MapEntry{Key: e.Key, Present: e.Present, Val: e.Val})
	}
}

func (w *respWriter) header(x *Exec, key string) (*Term, *Term) {
	for _, e := range w.snap {
		if k, ok := e.Key.(*Term); ok && k.IsConst() && k.S == key {
			es := x.sliceElems(e.Val)
			if len(es) == 0 {
				return e.Present, StrC("")
			}
			return e.Present, x.term(es[0])
		}
	}
	return FalseT, StrC("")
}

var _ = strings.HasPrefix
