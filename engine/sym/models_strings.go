package sym

import (
	"html"
	"fmt"
	"path"
	"regexp/syntax"
	"strings"
)

// Further contracts for strings, path and net/url that changed trees tend to
// reach for. Exact where SMT strings allow it; otherwise uninterpreted with the
// ground axioms listed in solver.go.

// ciRegex: SMT regex matching s with ASCII case folding (Unicode folding such
// as U+212A KELVIN SIGN ~ k is outside the contract).
func ciRegex(s string) string {
	if s == "" {
		return `(str.to_re "")`
	}
	var parts []string
	for i := 0; i < len(s); i++ {
		c := s[i]
		switch {
		case c >= 'a' && c <= 'z':
			parts = append(parts, fmt.Sprintf(`(re.union (str.to_re "%c") (str.to_re "%c"))`, c, c-32))
		case c >= 'A' && c <= 'Z':
			parts = append(parts, fmt.Sprintf(`(re.union (str.to_re "%c") (str.to_re "%c"))`, c, c+32))
		default:
			parts = append(parts, "(str.to_re "+smtString(string([]byte{c}))+")")
		}
	}
	if len(parts) == 1 {
		return parts[0]
	}
	return "(re.++ " + strings.Join(parts, " ") + ")"
}

const reNoUpper = `(re.* (re.union (re.range "\u{0}" "@") (re.range "[" "\u{ff}")))`
const reNoLower = `(re.* (re.union (re.range "\u{0}" "` + "`" + `") (re.range "{" "\u{ff}")))`

// a cleaned rooted path: "/" or one or more "/segment" with segments other than "." and ".."
const reCleanRooted = `(re.union (str.to_re "/") (re.+ (re.++ (str.to_re "/") (re.diff (re.+ (re.union (re.range "\u{0}" ".") (re.range "0" "\u{ff}"))) (re.union (str.to_re ".") (str.to_re ".."))))))`

func init() {
	ufAxioms["tolower"] = func(a *Term) []*Term {
		x := a.Args[0]
		return []*Term{
			Eq(Len(a), Len(x)),
			InRe(a, reNoUpper),
			Eq(Eq(a, x), InRe(x, reNoUpper)),
		}
	}
	ufAxioms["toupper"] = func(a *Term) []*Term {
		x := a.Args[0]
		return []*Term{
			Eq(Len(a), Len(x)),
			InRe(a, reNoLower),
			Eq(Eq(a, x), InRe(x, reNoLower)),
		}
	}
	ufAxioms["trimspace"] = func(a *Term) []*Term {
		x := a.Args[0]
		// the result is an infix without blank ends; it is the argument itself iff that has no blank ends
		noEnds := `(re.union (str.to_re "") (re.diff re.allchar (re.union (str.to_re " ") (str.to_re "\u{9}") (str.to_re "\u{a}") (str.to_re "\u{d}") (str.to_re "\u{b}") (str.to_re "\u{c}"))) (re.++ (re.diff re.allchar (re.union (str.to_re " ") (str.to_re "\u{9}") (str.to_re "\u{a}") (str.to_re "\u{d}") (str.to_re "\u{b}") (str.to_re "\u{c}"))) (re.* re.allchar) (re.diff re.allchar (re.union (str.to_re " ") (str.to_re "\u{9}") (str.to_re "\u{a}") (str.to_re "\u{d}") (str.to_re "\u{b}") (str.to_re "\u{c}")))))`
		ws := `(re.* (re.union (str.to_re " ") (str.to_re "\u{9}") (str.to_re "\u{a}") (str.to_re "\u{d}") (str.to_re "\u{b}") (str.to_re "\u{c}")))`
		return []*Term{
			Contains(x, a),
			InRe(a, noEnds),
			Eq(Eq(a, x), InRe(x, noEnds)),
			// ... and the argument is the result between blanks (emitted last: the text of a is declared by then)
			InRe(x, "(re.++ "+ws+" (str.to_re "+a.SMT(NewDecls())+") "+ws+")"),
		}
	}
	ufAxioms["pathclean"] = func(a *Term) []*Term {
		x := a.Args[0]
		return []*Term{
			Not(Eq(a, StrC(""))),
			// for rooted arguments: the result is a cleaned rooted path, and it is the argument iff that is clean
			Implies(PrefixOf(StrC("/"), x), And(InRe(a, reCleanRooted), Eq(Eq(a, x), InRe(x, reCleanRooted)))),
		}
	}
}

// reSameInLowerHex: strings every byte of which url.QueryEscape leaves alone,
// turns into '+', or escapes with digits only - exactly the strings on which
// the lower-case-hex style and Go's style agree.
var reSameInLowerHex = func() string {
	var ranges []string
	start := -1
	same := func(b int) bool {
		unres := b >= 'a' && b <= 'z' || b >= 'A' && b <= 'Z' || b >= '0' && b <= '9' || b == '-' || b == '_' || b == '.' || b == '~' || b == ' '
		return unres || (b>>4 < 10 && b&15 < 10)
	}
	for b := 0; b <= 256; b++ {
		if b < 256 && same(b) {
			if start < 0 {
				start = b
			}
			continue
		}
		if start >= 0 {
			ranges = append(ranges, fmt.Sprintf(`(re.range "\u{%x}" "\u{%x}")`, start, b-1))
			start = -1
		}
	}
	return "(re.* (re.union " + strings.Join(ranges, " ") + "))"
}()

const reEscaped = `(re.* (re.union (re.range "A" "Z") (re.range "a" "z") (re.range "0" "9") (str.to_re "_") (str.to_re ".") (str.to_re "~") (str.to_re "%") (str.to_re "+") (str.to_re "-")))`

func init() {
	ufAxioms["qe1"] = func(a *Term) []*Term {
		x := a.Args[0]
		return []*Term{
			Eq(UF("unqe", a), x),
			InRe(a, reEscaped),
			Eq(Eq(a, StrC("")), Eq(x, StrC(""))),
			Eq(Eq(a, UF("qe", x)), InRe(x, reSameInLowerHex)),
		}
	}
	ufAxioms["qe2"] = func(a *Term) []*Term {
		x := a.Args[0]
		return []*Term{
			Eq(UF("unqe", a), x),
			InRe(a, reEscaped),
			Eq(Eq(a, StrC("")), Eq(x, StrC(""))),
			Eq(Eq(a, UF("qe", x)), Not(Contains(x, StrC(" ")))),
		}
	}
}

func registerStringModels(e *Engine) {
	m := e.Models
	m["strings.ToUpper"] = func(x *Exec, fr *frame, a []Value) Value {
		t := x.term(a[0])
		if t.IsConst() {
			return StrC(strings.ToUpper(t.S))
		}
		return UF("toupper", t)
	}
	// html.EscapeString: the argument itself iff it holds none of & < > " '
	m["html.EscapeString"] = func(x *Exec, fr *frame, a []Value) Value {
		t := x.term(a[0])
		if t.IsConst() {
			return StrC(html.EscapeString(t.S))
		}
		return UF("htmlesc", t)
	}
	m["strings.TrimSpace"] = func(x *Exec, fr *frame, a []Value) Value {
		t := x.term(a[0])
		if t.IsConst() {
			return StrC(strings.TrimSpace(t.S))
		}
		return UF("trimspace", t)
	}
	m["strings.EqualFold"] = func(x *Exec, fr *frame, a []Value) Value {
		s, t := x.term(a[0]), x.term(a[1])
		switch {
		case s.IsConst() && t.IsConst():
			return BoolC(strings.EqualFold(s.S, t.S))
		case t.IsConst():
			return InRe(s, ciRegex(t.S))
		case s.IsConst():
			return InRe(t, ciRegex(s.S))
		}
		return Eq(UF("tolower", s), UF("tolower", t))
	}
	m["strings.Compare"] = func(x *Exec, fr *frame, a []Value) Value {
		s, t := x.term(a[0]), x.term(a[1])
		if s.IsConst() && t.IsConst() {
			return IntC(int64(strings.Compare(s.S, t.S)))
		}
		if x.Branch(Eq(s, t)) {
			return IntC(0)
		}
		if x.Branch(UFSort("strless", SBool, s, t)) {
			return IntC(-1)
		}
		return IntC(1)
	}
	m["strings.Index"] = func(x *Exec, fr *frame, a []Value) Value {
		s, t := x.term(a[0]), x.term(a[1])
		if s.IsConst() && t.IsConst() {
			return IntC(int64(strings.Index(s.S, t.S)))
		}
		return &Term{Op: "indexof", Sort: SInt, Args: []*Term{s, t, IntC(0)}}
	}
	m["strings.Count"] = func(x *Exec, fr *frame, a []Value) Value {
		s, t := x.term(a[0]), x.term(a[1])
		if s.IsConst() && t.IsConst() {
			return IntC(int64(strings.Count(s.S, t.S)))
		}
		panic(abortf("strings.Count on symbolic text"))
	}
	// strings.Cut(s, sep): exact via contains / indexof
	m["strings.Cut"] = func(x *Exec, fr *frame, a []Value) Value {
		s, sep := x.term(a[0]), x.term(a[1])
		if s.IsConst() && sep.IsConst() {
			b, af, ok := strings.Cut(s.S, sep.S)
			return TupleV{StrC(b), StrC(af), BoolC(ok)}
		}
		// a concatenation whose leading literal already contains the separator
		if ps := flatten(s); sep.IsConst() && len(ps) > 0 && ps[0].IsConst() {
			if i := strings.Index(ps[0].S, sep.S); i >= 0 {
				rest := append([]*Term{StrC(ps[0].S[i+len(sep.S):])}, ps[1:]...)
				return TupleV{StrC(ps[0].S[:i]), Concat(rest...), TrueT}
			}
		}
		if x.Branch(Contains(s, sep)) {
			idx := &Term{Op: "indexof", Sort: SInt, Args: []*Term{s, sep, IntC(0)}}
			before := Substr(s, IntC(0), idx)
			after := Substr(s, Add(idx, Len(sep)), Sub(Len(s), Add(idx, Len(sep))))
			return TupleV{before, after, TrueT}
		}
		return TupleV{s, StrC(""), FalseT}
	}
	split := func(x *Exec, s, sep *Term, n int) Value {
		if s.IsConst() && sep.IsConst() {
			var es []Value
			for _, p := range strings.SplitN(s.S, sep.S, n) {
				es = append(es, StrC(p))
			}
			return x.makeSlice(es)
		}
		if sep.IsConst() && sep.S == "&" && n < 0 {
			if ri := x.rawQueries[s.S]; ri != nil && s.Op == "sym" {
				return x.makeSlice(x.rawQueryParts(ri))
			}
			// a query string built from literal text and escaped values
			if params, ok := splitQuery(s); ok {
				var es []Value
				for _, p := range params {
					es = append(es, Concat(StrC(p.key+"="), p.val))
				}
				return x.makeSlice(es)
			}
		}
		panic(abortf("strings.Split on symbolic text (separator %s)", sep.Key()))
	}
	m["strings.Split"] = func(x *Exec, fr *frame, a []Value) Value { return split(x, x.term(a[0]), x.term(a[1]), -1) }
	m["strings.SplitN"] = func(x *Exec, fr *frame, a []Value) Value {
		n := x.term(a[2])
		if !n.IsConst() {
			panic(abortf("strings.SplitN with a symbolic count"))
		}
		return split(x, x.term(a[0]), x.term(a[1]), int(n.I))
	}
	m["path.Clean"] = func(x *Exec, fr *frame, a []Value) Value {
		t := x.term(a[0])
		if t.IsConst() {
			return StrC(path.Clean(t.S))
		}
		return UF("pathclean", t)
	}
	m["path.Join"] = func(x *Exec, fr *frame, a []Value) Value {
		var parts []string
		for _, v := range x.sliceElems(a[0]) {
			t := x.term(v)
			if !t.IsConst() {
				// Join cleans the concatenation of its non-empty elements
				var ts []*Term
				for i, w := range x.sliceElems(a[0]) {
					if i > 0 {
						ts = append(ts, StrC("/"))
					}
					ts = append(ts, x.term(w))
				}
				return UF("pathclean", Concat(ts...))
			}
			parts = append(parts, t.S)
		}
		return StrC(path.Join(parts...))
	}
}

// rawQueryParts materialises the raw query string of a harness-built request
// as its '&'-separated "key=rawvalue" pieces, in the order the parameters were
// placed. Presence flags are decided here (forks). Stated bound: on paths that
// inspect the raw query, the query holds no parameters beyond those the module
// has named so far, and each key at most once.
func (x *Exec) rawQueryParts(ri *reqInfo) []Value {
	if ri.rawParts != nil {
		return ri.rawParts
	}
	x.bounds["raw query: parameters beyond those named by the module are absent; one value per key"] = 1
	var parts []Value
	if x.Branch(ri.parseFail) {
		// the malformed pair that made ParseForm fail
		parts = append(parts, StrC("vrtbad=%zz"))
	}
	for _, key := range ri.order {
		p := ri.params[key]
		if x.Branch(p.qHas) {
			raw := p.qRaw
			if raw == nil {
				raw = x.term(x.callModel("net/url.QueryEscape", nil, p.qVal))
			}
			parts = append(parts, Concat(StrC(key+"="), raw))
		}
	}
	ri.queryClosed = true
	if len(parts) == 0 {
		parts = []Value{StrC("")}
	}
	ri.rawParts = parts
	return parts
}


// ---- Go regular expressions as SMT-LIB regular expressions (byte level)

func smtChar(b int) string { return fmt.Sprintf(`"\u{%x}"`, b) }

// reToSMT translates a parsed Go regexp. Strings are byte strings here: a rune
// above 0xff stands for "some byte >= 0x80" (stated approximation for non-ASCII
// text). ok is false for constructs outside the supported subset (word
// boundaries, anchors inside the pattern, flags).
func reToSMT(r *syntax.Regexp) (string, bool) {
	switch r.Op {
	case syntax.OpEmptyMatch:
		return `(str.to_re "")`, true
	case syntax.OpLiteral:
		if r.Flags&syntax.FoldCase != 0 {
			return ciRegex(string(r.Rune)), true
		}
		return "(str.to_re " + smtString(string(r.Rune)) + ")", true
	case syntax.OpCharClass:
		var rs []string
		for i := 0; i+1 < len(r.Rune); i += 2 {
			lo, hi := int(r.Rune[i]), int(r.Rune[i+1])
			if lo > 0xff {
				lo = 0x80
			}
			if hi > 0xff {
				hi = 0xff
			}
			rs = append(rs, "(re.range "+smtChar(lo)+" "+smtChar(hi)+")")
		}
		switch len(rs) {
		case 0:
			return "re.none", true
		case 1:
			return rs[0], true
		}
		return "(re.union " + strings.Join(rs, " ") + ")", true
	case syntax.OpAnyChar:
		return "re.allchar", true
	case syntax.OpAnyCharNotNL:
		return `(re.diff re.allchar (str.to_re "\u{a}"))`, true
	case syntax.OpCapture:
		return reToSMT(r.Sub[0])
	case syntax.OpStar, syntax.OpPlus, syntax.OpQuest:
		sub, ok := reToSMT(r.Sub[0])
		if !ok {
			return "", false
		}
		return "(" + map[syntax.Op]string{syntax.OpStar: "re.*", syntax.OpPlus: "re.+", syntax.OpQuest: "re.opt"}[r.Op] + " " + sub + ")", true
	case syntax.OpRepeat:
		sub, ok := reToSMT(r.Sub[0])
		if !ok {
			return "", false
		}
		if r.Max < 0 {
			return fmt.Sprintf("(re.++ ((_ re.^ %d) %s) (re.* %s))", r.Min, sub, sub), true
		}
		return fmt.Sprintf("((_ re.loop %d %d) %s)", r.Min, r.Max, sub), true
	case syntax.OpConcat, syntax.OpAlternate:
		var parts []string
		for _, s := range r.Sub {
			p, ok := reToSMT(s)
			if !ok {
				return "", false
			}
			parts = append(parts, p)
		}
		op := "re.++"
		if r.Op == syntax.OpAlternate {
			op = "re.union"
		}
		if len(parts) == 1 {
			return parts[0], true
		}
		return "(" + op + " " + strings.Join(parts, " ") + ")", true
	}
	return "", false
}

// goRegexToSMT: the SMT regex L such that MatchString(s) <=> s in L.
func goRegexToSMT(pattern string) (string, bool) {
	r, err := syntax.Parse(pattern, syntax.Perl)
	if err != nil {
		return "", false
	}
	r = r.Simplify()
	subs := []*syntax.Regexp{r}
	if r.Op == syntax.OpConcat {
		subs = r.Sub
	}
	begin, end := false, false
	if len(subs) > 0 && (subs[0].Op == syntax.OpBeginText || subs[0].Op == syntax.OpBeginLine && r.Flags&syntax.OneLine != 0) {
		begin = true
		subs = subs[1:]
	}
	if len(subs) > 0 && (subs[len(subs)-1].Op == syntax.OpEndText) {
		end = true
		subs = subs[:len(subs)-1]
	}
	parts := []string{}
	if !begin {
		parts = append(parts, "re.all")
	}
	for _, s := range subs {
		p, ok := reToSMT(s)
		if !ok {
			return "", false
		}
		parts = append(parts, p)
	}
	if !end {
		parts = append(parts, "re.all")
	}
	switch len(parts) {
	case 0:
		return `(str.to_re "")`, true
	case 1:
		return parts[0], true
	}
	return "(re.++ " + strings.Join(parts, " ") + ")", true
}

const reWS = `(re.union (str.to_re " ") (str.to_re "\u{9}") (str.to_re "\u{a}") (str.to_re "\u{c}") (str.to_re "\u{d}"))`

func init() {
	ufAxioms["nows"] = func(a *Term) []*Term {
		x := a.Args[0]
		noWS := "(re.* (re.diff re.allchar " + reWS + "))"
		return []*Term{
			InRe(a, noWS),
			Le(Len(a), Len(x)),
			Eq(Eq(a, x), InRe(x, noWS)),
			Eq(Eq(a, StrC("")), InRe(x, "(re.* "+reWS+")")),
		}
	}
}
