package sym

type xmlToken struct {
	Obj  Value // snapshot (deep copy)
	Typ  string
	Key  string
}
type timeStr struct {
	Layout string
	OK     *Term
	NS     *Term
}
type signedTriple struct{}
type certInfo struct{}
type reqInfo struct{}
type streamObj struct {
	content *Term
}

func registerHTTPModels(e *Engine)   {}
func registerCodecModels(e *Engine)  {}
func registerCryptoModels(e *Engine) {}
func registerTimeModels(e *Engine)   {}
