package sym

import (
	"fmt"
	"go/types"
	"reflect"
	"strings"

	"golang.org/x/tools/go/ssa"
)

// Value is one of: *Term (bool/int/string scalar), *Pointer, *StructV, *ArrayV,
// *SliceV, *BytesV, *MapV, *IfaceV, *FuncV, *Native, *LazyRef, TupleV, *TimeV.
type Value interface{}

// Cell is an addressable memory object.
type Cell struct {
	V     Value
	Typ   types.Type
	Epoch int
	Name  string // for diagnostics (global name, alloc comment)
	ID    int
}

// Pointer addresses a sub-location of a cell. Cell == nil is the nil pointer.
type Pointer struct {
	Cell *Cell
	Path []int
}

var NilPtr = &Pointer{}

func (p *Pointer) IsNil() bool { return p.Cell == nil }

func (p *Pointer) sub(i int) *Pointer {
	np := make([]int, len(p.Path)+1)
	copy(np, p.Path)
	np[len(p.Path)] = i
	return &Pointer{Cell: p.Cell, Path: np}
}

func samePointer(a, b *Pointer) bool {
	if a.Cell != b.Cell || len(a.Path) != len(b.Path) {
		return false
	}
	for i := range a.Path {
		if a.Path[i] != b.Path[i] {
			return false
		}
	}
	return true
}

// StructV and ArrayV are immutable aggregates (copy on write along a path).
type StructV struct{ F []Value }
type ArrayV struct{ E []Value }

// SliceV: Arr == nil is the nil slice. Arr holds an *ArrayV.
type SliceV struct {
	Arr           *Cell
	Off, Len, Cap int
}

// BytesV is an immutable byte string ([]byte) as a string term.
type BytesV struct {
	T   *Term
	Nil bool
}

type MapEntry struct {
	Key     Value
	Present *Term // symbolic presence (lazy library maps); TrueT for ordinary maps
	Val     Value
}
type MapObj struct {
	Entries []*MapEntry
	Epoch   int
	Kind    string // "" ordinary; "header" canonicalising
	Lazy    *lazyMapSpec
}
type MapV struct{ M *MapObj } // M == nil: nil map

// IfaceV: T == nil is the nil interface.
type IfaceV struct {
	T types.Type
	V Value
}

var NilIface = &IfaceV{}

// FuncV is a function value (closure); Fn == nil && Native == nil is nil func.
type FuncV struct {
	Fn     *ssa.Function
	Env    []Value
	Native func(x *Exec, args []Value) Value
	Name   string
}

// Native is an engine-level object standing for a library object.
type Native struct {
	Kind string
	Data interface{}
}

// LazyRef is an undecided pointer or slice input (lazy initialisation).
type LazyRef struct {
	Name     string
	Typ      types.Type
	Resolved Value
	MaxLen   int
}

type TupleV []Value

// TimeV is a time.Time: nanoseconds since an arbitrary epoch; Zero = zero Time.
type TimeV struct {
	NS *Term
}

// ErrObj is the payload of engine-made errors.
type ErrObj struct {
	Msg     *Term
	Wrapped Value // *IfaceV or nil
	ID      int
}

// ---- zero values

func isByteSlice(t types.Type) bool {
	if s, ok := t.Underlying().(*types.Slice); ok {
		if b, ok := s.Elem().Underlying().(*types.Basic); ok {
			return b.Kind() == types.Uint8
		}
	}
	return false
}

func isTimeType(t types.Type) bool {
	if n, ok := t.(*types.Named); ok {
		return n.Obj().Pkg() != nil && n.Obj().Pkg().Path() == "time" && n.Obj().Name() == "Time"
	}
	return false
}

// zeroTimeNS stands for Go's zero time.Time (January 1, year 1 UTC): a sentinel
// about 285 years before the Unix epoch (the real value does not fit the term
// representation), outside every instant a clock reads or a harness timestamp
// denotes (those lie within 200 years of now), so that IsZero does not hold for
// the epoch itself. Ordering against real instants is preserved.
var zeroTimeNS = IntC(-9000000000000000000)

func zeroValue(t types.Type) Value {
	if isTimeType(t) {
		return &TimeV{NS: zeroTimeNS}
	}
	switch u := t.Underlying().(type) {
	case *types.Basic:
		switch {
		case u.Info()&types.IsBoolean != 0:
			return FalseT
		case u.Info()&types.IsString != 0:
			return StrC("")
		case u.Info()&types.IsNumeric != 0:
			return IntC(0)
		case u.Kind() == types.UnsafePointer:
			return NilPtr
		case u.Kind() == types.UntypedNil:
			return NilPtr
		}
	case *types.Pointer:
		return NilPtr
	case *types.Struct:
		f := make([]Value, u.NumFields())
		for i := range f {
			f[i] = zeroValue(u.Field(i).Type())
		}
		return &StructV{F: f}
	case *types.Array:
		e := make([]Value, u.Len())
		for i := range e {
			e[i] = zeroValue(u.Elem())
		}
		return &ArrayV{E: e}
	case *types.Slice:
		if isByteSlice(t) {
			return &BytesV{T: StrC(""), Nil: true}
		}
		return &SliceV{}
	case *types.Map:
		return &MapV{}
	case *types.Interface:
		return NilIface
	case *types.Signature:
		return &FuncV{}
	case *types.Chan:
		return NilPtr
	case *types.Tuple:
		tv := make(TupleV, u.Len())
		for i := range tv {
			tv[i] = zeroValue(u.At(i).Type())
		}
		return tv
	}
	panic(fmt.Sprintf("zeroValue: unsupported type %s", t))
}

// ---- navigation

func navigate(v Value, path []int) Value {
	for _, i := range path {
		switch a := v.(type) {
		case *StructV:
			v = a.F[i]
		case *ArrayV:
			if i < 0 || i >= len(a.E) {
				panic(abortf("internal: array path out of range"))
			}
			v = a.E[i]
		default:
			panic(abortf("internal: navigate into %T", v))
		}
	}
	return v
}

func update(v Value, path []int, nv Value) Value {
	if len(path) == 0 {
		return nv
	}
	i := path[0]
	switch a := v.(type) {
	case *StructV:
		f := make([]Value, len(a.F))
		copy(f, a.F)
		f[i] = update(a.F[i], path[1:], nv)
		return &StructV{F: f}
	case *ArrayV:
		e := make([]Value, len(a.E))
		copy(e, a.E)
		e[i] = update(a.E[i], path[1:], nv)
		return &ArrayV{E: e}
	}
	panic(abortf("internal: update into %T", v))
}

// ---- helpers for describing values (canonical snapshot keys, debugging)

// snapKey is a canonical deep rendering of a value: equal keys mean equal
// content. Pointers are followed (decoded messages are trees).
func (x *Exec) snapKey(v Value, depth int) string {
	if depth > 40 {
		return "<deep>"
	}
	switch a := v.(type) {
	case nil:
		return "nil"
	case *Term:
		return a.Key()
	case *Pointer:
		if a.IsNil() {
			return "nil"
		}
		return "&" + x.snapKey(x.load(a), depth+1)
	case *StructV:
		var sb strings.Builder
		sb.WriteString("{")
		for i, f := range a.F {
			if i > 0 {
				sb.WriteString(",")
			}
			sb.WriteString(x.snapKey(f, depth+1))
		}
		sb.WriteString("}")
		return sb.String()
	case *ArrayV:
		var sb strings.Builder
		sb.WriteString("[")
		for i, f := range a.E {
			if i > 0 {
				sb.WriteString(",")
			}
			sb.WriteString(x.snapKey(f, depth+1))
		}
		sb.WriteString("]")
		return sb.String()
	case *SliceV:
		if a.Arr == nil || a.Len == 0 {
			return "[]"
		}
		arr := a.Arr.V.(*ArrayV)
		var sb strings.Builder
		sb.WriteString("[")
		for i := 0; i < a.Len; i++ {
			if i > 0 {
				sb.WriteString(",")
			}
			sb.WriteString(x.snapKey(arr.E[a.Off+i], depth+1))
		}
		sb.WriteString("]")
		return sb.String()
	case *BytesV:
		return "b" + a.T.Key()
	case *IfaceV:
		if a.T == nil {
			return "nil"
		}
		return "i(" + a.T.String() + ":" + x.snapKey(a.V, depth+1) + ")"
	case *LazyRef:
		if a.Resolved != nil {
			return x.snapKey(a.Resolved, depth)
		}
		return "lazy:" + a.Name
	case *MapV:
		if a.M == nil {
			return "map{}"
		}
		var sb strings.Builder
		sb.WriteString("map{")
		for _, e := range a.M.Entries {
			sb.WriteString(x.snapKey(e.Key, depth+1) + "?" + e.Present.Key() + ":" + x.snapKey(e.Val, depth+1) + ";")
		}
		sb.WriteString("}")
		return sb.String()
	case *TimeV:
		return "time(" + a.NS.Key() + ")"
	case *Native:
		return fmt.Sprintf("native:%s:%p", a.Kind, a)
	case *FuncV:
		if a.Fn != nil {
			return "func:" + a.Fn.String()
		}
		return "func:" + a.Name
	case *ErrObj:
		return "err(" + a.Msg.Key() + ")"
	case TupleV:
		var sb strings.Builder
		sb.WriteString("(")
		for _, f := range a {
			sb.WriteString(x.snapKey(f, depth+1) + ",")
		}
		sb.WriteString(")")
		return sb.String()
	}
	return fmt.Sprintf("<%T>", v)
}

// deepCopy snapshots a value so that later mutation of the original is not
// visible (pointers are followed and re-allocated).
func (x *Exec) deepCopy(v Value, depth int) Value {
	if depth > 40 {
		return v
	}
	switch a := v.(type) {
	case *Pointer:
		if a.IsNil() {
			return a
		}
		if len(a.Path) != 0 {
			// interior pointer: copy the pointee into a fresh cell
			c := x.newCell(x.deepCopy(x.load(a), depth+1), nil, "snap")
			return &Pointer{Cell: c}
		}
		c := x.newCell(x.deepCopy(a.Cell.V, depth+1), a.Cell.Typ, "snap")
		return &Pointer{Cell: c}
	case *StructV:
		f := make([]Value, len(a.F))
		for i := range f {
			f[i] = x.deepCopy(a.F[i], depth+1)
		}
		return &StructV{F: f}
	case *ArrayV:
		e := make([]Value, len(a.E))
		for i := range e {
			e[i] = x.deepCopy(a.E[i], depth+1)
		}
		return &ArrayV{E: e}
	case *SliceV:
		if a.Arr == nil {
			return a
		}
		arr := a.Arr.V.(*ArrayV)
		e := make([]Value, a.Len)
		for i := 0; i < a.Len; i++ {
			e[i] = x.deepCopy(arr.E[a.Off+i], depth+1)
		}
		c := x.newCell(&ArrayV{E: e}, nil, "snap")
		return &SliceV{Arr: c, Off: 0, Len: a.Len, Cap: a.Len}
	case *LazyRef:
		if a.Resolved != nil {
			return x.deepCopy(a.Resolved, depth)
		}
		return a
	case *IfaceV:
		if a.T == nil {
			return a
		}
		return &IfaceV{T: a.T, V: x.deepCopy(a.V, depth+1)}
	}
	return v
}

func typeName(t types.Type) string {
	return types.TypeString(t, nil)
}

func structFieldIndex(t types.Type, name string) int {
	st, ok := t.Underlying().(*types.Struct)
	if !ok {
		if p, ok := t.Underlying().(*types.Pointer); ok {
			return structFieldIndex(p.Elem(), name)
		}
		return -1
	}
	for i := 0; i < st.NumFields(); i++ {
		if st.Field(i).Name() == name {
			return i
		}
	}
	return -1
}

var _ = reflect.TypeOf
