package sym

import (
	"crypto/x509"
	"encoding/asn1"
	"fmt"
	"go/types"
	"math/big"
)

// ---------------------------------------------------------------------------
// Idealised cryptography (DESIGN §3.6): hashes are injective uninterpreted
// functions; a signature verifies iff it is the value the matching signer
// produced over the same octets with the same algorithm.

type certInfo struct {
	ok      *Term
	keyType int // 0 rsa, 1 ecdsa, 2 ed25519
	keyID   *Term
	ptr     *Pointer
	der     *Term
	name    string
}

// signedTriple is something the simulated SP (or the IdP itself) signed.
type signedTriple struct {
	kind   string // redirect | enveloped
	keyID  *Term
	octets *Term // redirect: the octet string; enveloped: the document token
	alg    *Term
	sig    *Term
	by     string // "sp" | "idp"
	snap   string // enveloped, idp: snapshot key of the value signed
	typ    string
	dig    *Term
	cert   *Term
	uri    *Term
}

var keyTypeNames = []string{"*crypto/rsa.PublicKey", "*crypto/ecdsa.PublicKey", "crypto/ed25519.PublicKey"}

func init() {
	injectiveUF["sha1"] = true
	injectiveUF["sha256"] = true
	injectiveUF["pkcs1"] = true
}

// certSymbol finds the harness certificate-text symbol a term derives from.
func (x *Exec) certSymbol(t *Term) string {
	found := ""
	var walk func(t *Term)
	walk = func(t *Term) {
		if t.Op == "sym" && x.attr(t, "certtext") {
			found = t.S
		}
		for _, a := range t.Args {
			walk(a)
		}
	}
	walk(t)
	return found
}

func (x *Exec) pubKeyType(kind int) types.Type {
	switch kind {
	case 0:
		return types.NewPointer(x.E.namedType("crypto/rsa", "PublicKey"))
	case 1:
		return types.NewPointer(x.E.namedType("crypto/ecdsa", "PublicKey"))
	}
	return x.E.namedType("crypto/ed25519", "PublicKey")
}

func (x *Exec) parseCertificate(der *Term) (*certInfo, bool) {
	key := der.Key()
	ci, ok := x.certs[key]
	if !ok && der.IsConst() {
		// concrete bytes: the real parser decides
		if _, err := x509.ParseCertificate([]byte(der.S)); err != nil {
			return &certInfo{der: der, ok: FalseT}, false
		}
	}
	if !ok {
		ci = &certInfo{der: der}
		name := x.certSymbol(der)
		if name == "" {
			name = fmt.Sprintf("cert!%d", len(x.certs))
			x.unreplayable = append(x.unreplayable, "certificate bytes the harness did not build")
		}
		ci.ok = x.sym(name+".valid", SBool)
		ci.keyID = UF("pubkey", der)
		ci.keyType = -1
		ci.name = name
		x.certs[key] = ci
	}
	if !x.Branch(ci.ok) {
		return ci, false
	}
	if ci.keyType < 0 {
		if x.attr(der, "idpcert") || x.certSymbol(der) == "" && der.Op == "sym" && x.attr(der, "rsacert") {
			ci.keyType = 0
		} else {
			ci.keyType = x.Choose(ci.name+".keytype", 3)
		}
		ct := x.E.namedType("crypto/x509", "Certificate")
		c := x.newCell(zeroValue(ct), ct, "x509.Certificate")
		ci.ptr = &Pointer{Cell: c}
		x.setField(ci.ptr, ct, "Raw", &BytesV{T: der})
		x.setField(ci.ptr, ct, "PublicKey", &IfaceV{T: x.pubKeyType(ci.keyType), V: &Native{Kind: "pubkey", Data: ci}})
		x.setField(ci.ptr, ct, "PublicKeyAlgorithm", IntC(int64([]int{1, 3, 4}[ci.keyType])))
	}
	return ci, true
}

func registerCryptoModels(e *Engine) {
	m := e.Models

	m["crypto/x509.ParseCertificate"] = func(x *Exec, fr *frame, a []Value) Value {
		ci, ok := x.parseCertificate(bytesTerm(x, a[0]))
		if !ok {
			return TupleV{NilPtr, x.errorC("x509: malformed certificate")}
		}
		return TupleV{ci.ptr, NilIface}
	}
	m["crypto/x509.MarshalPKCS1PrivateKey"] = func(x *Exec, fr *frame, a []Value) Value {
		p, ok := x.force(a[0]).(*Pointer)
		if !ok || p.IsNil() {
			panic(&guestPanic{msg: "nil pointer dereference (x509.MarshalPKCS1PrivateKey(nil))"})
		}
		return &BytesV{T: UF("pkcs1", x.privKeyID(p))}
	}
	m["crypto/tls.X509KeyPair"] = func(x *Exec, fr *frame, a []Value) Value {
		certPem, keyPem := bytesTerm(x, a[0]), bytesTerm(x, a[1])
		tc := x.E.namedType("crypto/tls", "Certificate")
		fail := func(msg string) Value { return TupleV{zeroValue(tc), x.errorC(msg)} }
		if !(certPem.Op == "uf" && certPem.S == "pem" && keyPem.Op == "uf" && keyPem.S == "pem") {
			panic(abortf("tls.X509KeyPair on bytes that are not PEM blocks built by pem.Encode"))
		}
		der := certPem.Args[1]
		// the certificate must parse, be an RSA certificate, and match the private key
		ci, ok := x.parseCertificate(der)
		if !ok {
			return fail("tls: failed to parse certificate")
		}
		pk := keyPem.Args[1]
		if !(pk.Op == "uf" && pk.S == "pkcs1") {
			return fail("tls: failed to parse private key")
		}
		if !x.Branch(Eq(UF("pubof", pk.Args[0]), ci.keyID)) {
			return fail("tls: private key does not match public key")
		}
		c := x.newCell(zeroValue(tc), tc, "tls.Certificate")
		p := &Pointer{Cell: c}
		x.setField(p, tc, "Certificate", x.makeSlice([]Value{&BytesV{T: der}}))
		x.setField(p, tc, "PrivateKey", &IfaceV{T: types.NewPointer(x.E.namedType("crypto/rsa", "PrivateKey")), V: &Native{Kind: "privkey", Data: &privKey{id: pk.Args[0], ci: ci}}})
		return TupleV{x.load(p), NilIface}
	}

	// xmlsig signer
	m["github.com/amdonov/xmlsig.NewSignerWithOptions"] = func(x *Exec, fr *frame, a []Value) Value {
		tc := x.E.namedType("crypto/tls", "Certificate")
		cert := x.force(a[0]).(*StructV)
		certs := x.sliceElems(cert.F[x.fieldIdx(tc, "Certificate")])
		if len(certs) == 0 {
			panic(&guestPanic{msg: "index out of range [0] with length 0 (xmlsig: certificate chain empty)"})
		}
		der := bytesTerm(x, certs[0])
		ci, ok := x.parseCertificate(der)
		if !ok {
			return TupleV{NilIface, x.errorC("x509: malformed certificate")}
		}
		so := x.E.namedType("github.com/amdonov/xmlsig", "SignerOptions")
		opts := x.force(a[1]).(*StructV)
		sigAlg := x.term(opts.F[x.fieldIdx(so, "SignatureAlgorithm")])
		digAlg := x.term(opts.F[x.fieldIdx(so, "DigestAlgorithm")])
		if ci.keyType != 0 {
			return TupleV{NilIface, x.errorC("xmlsig does not support this certificate type")}
		}
		// pickSignatureAlgorithm for RSA
		okSig := Or(Eq(sigAlg, StrC("")), Eq(sigAlg, StrC("http://www.w3.org/2000/09/xmldsig#rsa-sha1")), Eq(sigAlg, StrC("http://www.w3.org/2001/04/xmldsig-more#rsa-sha256")))
		if !x.Branch(okSig) {
			return TupleV{NilIface, x.errorC("xmlsig does not currently the specfied algorithm for RSA certificates")}
		}
		if x.Branch(Eq(sigAlg, StrC(""))) {
			sigAlg = StrC("http://www.w3.org/2000/09/xmldsig#rsa-sha1")
		}
		okDig := Or(Eq(digAlg, StrC("")), Eq(digAlg, StrC("http://www.w3.org/2000/09/xmldsig#sha1")), Eq(digAlg, StrC("http://www.w3.org/2001/04/xmlenc#sha256")))
		if !x.Branch(okDig) {
			return TupleV{NilIface, x.errorC("xmlsig does not support the specified digest algorithm")}
		}
		if x.Branch(Eq(digAlg, StrC(""))) {
			digAlg = StrC("http://www.w3.org/2000/09/xmldsig#sha1")
		}
		pkv, _ := x.force(cert.F[x.fieldIdx(tc, "PrivateKey")]).(*IfaceV)
		if pkv == nil || pkv.T == nil {
			panic(&guestPanic{msg: "interface conversion: interface is nil, not crypto.Signer"})
		}
		return TupleV{nativeIface("xmlsigner", &xmlSigner{ci: ci, sigAlg: sigAlg, digAlg: digAlg}), NilIface}
	}
	e.NativeMeth["xmlsigner.Algorithm"] = func(x *Exec, fr *frame, a []Value) Value {
		return a[0].(*Native).Data.(*xmlSigner).sigAlg
	}
	e.NativeMeth["xmlsigner.CreateSignature"] = func(x *Exec, fr *frame, a []Value) Value {
		s := a[0].(*Native).Data.(*xmlSigner)
		iv, ok := x.force(a[1]).(*IfaceV)
		if !ok || iv.T == nil {
			return TupleV{NilPtr, x.errorC("xmlsig: cannot canonicalize nil")}
		}
		tok := x.token("xml", iv.V, iv.T)
		st := x.E.namedType("github.com/amdonov/xmlsig", "Signature")
		c := x.newCell(zeroValue(st), st, "xmlsig.Signature")
		p := &Pointer{Cell: c}
		// element ID of the value signed
		id := StrC("")
		val := x.force(iv.V)
		vt := iv.T
		if pp, ok := val.(*Pointer); ok && !pp.IsNil() {
			val = x.load(pp)
			vt = vt.Underlying().(*types.Pointer).Elem()
		}
		if sv, ok := val.(*StructV); ok {
			if i := structFieldIndex(vt, "Id"); i >= 0 {
				id = x.term(sv.F[i])
			}
		}
		sigVal := UF("b64", UF("rsasign", s.ci.keyID, s.sigAlg, UF("signedinfo", tok, s.digAlg)))
		algT := x.E.namedType("github.com/amdonov/xmlsig", "Algorithm")
		mkAlg := func(a *Term) Value {
			z := zeroValue(algT).(*StructV)
			f := append([]Value{}, z.F...)
			f[x.fieldIdx(algT, "Algorithm")] = a
			return &StructV{F: f}
		}
		set := func(path []string, v Value) {
			t := types.Type(st)
			var idx []int
			for _, n := range path {
				i := x.fieldIdx(t, n)
				idx = append(idx, i)
				t = t.Underlying().(*types.Struct).Field(i).Type()
			}
			c.V = update(c.V, idx, v)
		}
		set([]string{"SignedInfo", "CanonicalizationMethod"}, mkAlg(StrC("http://www.w3.org/2001/10/xml-exc-c14n#")))
		set([]string{"SignedInfo", "SignatureMethod"}, mkAlg(s.sigAlg))
		set([]string{"SignedInfo", "Reference", "DigestMethod"}, mkAlg(s.digAlg))
		set([]string{"SignedInfo", "Reference", "DigestValue"}, UF("b64", UF("digest", s.digAlg, tok)))
		set([]string{"SignedInfo", "Reference", "URI"}, Ite(Eq(id, StrC("")), StrC(""), Concat(StrC("#"), id)))
		set([]string{"SignedInfo", "Reference", "Transforms", "Transform"}, x.makeSlice([]Value{
			mkAlg(StrC("http://www.w3.org/2000/09/xmldsig#enveloped-signature")), mkAlg(StrC("http://www.w3.org/2001/10/xml-exc-c14n#"))}))
		set([]string{"SignatureValue"}, sigVal)
		xd := x.E.namedType("github.com/amdonov/xmlsig", "X509Data")
		xc := x.newCell(zeroValue(xd), xd, "xmlsig.X509Data")
		x.setField(&Pointer{Cell: xc}, xd, "X509Certificate", UF("b64", s.ci.der))
		set([]string{"KeyInfo", "X509Data"}, &Pointer{Cell: xc})
		x.signed = append(x.signed, &signedTriple{kind: "enveloped", by: "idp", keyID: s.ci.keyID, octets: tok, alg: s.sigAlg, sig: sigVal,
			snap: x.snapKey(val, 0), typ: iv.T.String(), dig: s.digAlg, cert: UF("b64", s.ci.der), uri: Ite(Eq(id, StrC("")), StrC(""), Concat(StrC("#"), id))})
		return TupleV{p, NilIface}
	}

	// goxmldsig signing context (Redirect binding)
	m["github.com/russellhaering/goxmldsig.TLSCertKeyStore"] = func(x *Exec, fr *frame, a []Value) Value { return a[0] }
	m["github.com/russellhaering/goxmldsig.NewDefaultSigningContext"] = func(x *Exec, fr *frame, a []Value) Value {
		st := x.E.namedType("github.com/russellhaering/goxmldsig", "SigningContext")
		c := x.newCell(zeroValue(st), st, "dsig.SigningContext")
		p := &Pointer{Cell: c}
		x.setField(p, st, "KeyStore", a[0])
		x.sigCtx[c] = &sigCtxInfo{alg: StrC("http://www.w3.org/2001/04/xmldsig-more#rsa-sha256")}
		return p
	}
	m["github.com/russellhaering/goxmldsig.MakeC14N10ExclusiveCanonicalizerWithPrefixList"] = func(x *Exec, fr *frame, a []Value) Value {
		return nativeIface("canonicalizer", "exc-c14n")
	}
	m["github.com/russellhaering/goxmldsig.MakeC14N11Canonicalizer"] = func(x *Exec, fr *frame, a []Value) Value {
		return nativeIface("canonicalizer", "c14n11")
	}
	sigCtxOf := func(x *Exec, v Value) (*Pointer, *sigCtxInfo) {
		p, ok := x.force(v).(*Pointer)
		if !ok || p.IsNil() {
			panic(&guestPanic{msg: "nil pointer dereference (*dsig.SigningContext)"})
		}
		si := x.sigCtx[p.Cell]
		if si == nil {
			panic(abortf("SigningContext not created by NewDefaultSigningContext"))
		}
		return p, si
	}
	m["(*github.com/russellhaering/goxmldsig.SigningContext).SetSignatureMethod"] = func(x *Exec, fr *frame, a []Value) Value {
		_, si := sigCtxOf(x, a[0])
		alg := x.term(a[1])
		known := Or(Eq(alg, StrC("http://www.w3.org/2000/09/xmldsig#rsa-sha1")), Eq(alg, StrC("http://www.w3.org/2001/04/xmldsig-more#rsa-sha256")),
			Eq(alg, StrC("http://www.w3.org/2001/04/xmldsig-more#rsa-sha512")), Eq(alg, StrC("http://www.w3.org/2001/04/xmldsig-more#ecdsa-sha1")),
			Eq(alg, StrC("http://www.w3.org/2001/04/xmldsig-more#ecdsa-sha256")), Eq(alg, StrC("http://www.w3.org/2001/04/xmldsig-more#ecdsa-sha512")))
		if !x.Branch(known) {
			return x.errorC("Unknown SignatureMethod")
		}
		si.alg = alg
		return NilIface
	}
	m["(*github.com/russellhaering/goxmldsig.SigningContext).GetSignatureMethodIdentifier"] = func(x *Exec, fr *frame, a []Value) Value {
		_, si := sigCtxOf(x, a[0])
		return si.alg
	}
	m["(*github.com/russellhaering/goxmldsig.SigningContext).GetDigestAlgorithmIdentifier"] = func(x *Exec, fr *frame, a []Value) Value {
		_, si := sigCtxOf(x, a[0])
		return UF("digestalgof", si.alg)
	}
	m["(*github.com/russellhaering/goxmldsig.SigningContext).SignString"] = func(x *Exec, fr *frame, a []Value) Value {
		p, si := sigCtxOf(x, a[0])
		st := x.E.namedType("github.com/russellhaering/goxmldsig", "SigningContext")
		ks := x.force(x.getField(p, st, "KeyStore"))
		iv, _ := ks.(*IfaceV)
		if iv == nil || iv.T == nil {
			panic(&guestPanic{msg: "nil pointer dereference (SigningContext.KeyStore)"})
		}
		tc := x.E.namedType("crypto/tls", "Certificate")
		cert, ok := x.force(iv.V).(*StructV)
		if !ok {
			panic(abortf("KeyStore is %T", iv.V))
		}
		pk, _ := x.force(cert.F[x.fieldIdx(tc, "PrivateKey")]).(*IfaceV)
		if pk == nil || pk.T == nil {
			return TupleV{&BytesV{T: StrC(""), Nil: true}, x.errorC("private key is nil")}
		}
		key := pk.V.(*Native).Data.(*privKey)
		octets := x.term(a[1])
		// the key store holds an RSA key: ECDSA signature methods do not match it
		rsaAlg := Or(Eq(si.alg, StrC("http://www.w3.org/2000/09/xmldsig#rsa-sha1")), Eq(si.alg, StrC("http://www.w3.org/2001/04/xmldsig-more#rsa-sha256")),
			Eq(si.alg, StrC("http://www.w3.org/2001/04/xmldsig-more#rsa-sha512")))
		if !x.Branch(rsaAlg) {
			return TupleV{&BytesV{T: StrC(""), Nil: true}, x.errorC("signature method does not match the key")}
		}
		if x.Branch(x.sym("idp.signstring.fails", SBool)) {
			return TupleV{&BytesV{T: StrC(""), Nil: true}, x.libError("SignString")}
		}
		sig := UF("rsasign", key.ci.keyID, si.alg, octets)
		x.signed = append(x.signed, &signedTriple{kind: "redirect", by: "idp", keyID: key.ci.keyID, octets: octets, alg: si.alg, sig: sig})
		return TupleV{&BytesV{T: sig}, NilIface}
	}

	// hashes
	for _, h := range []string{"sha1", "sha256"} {
		h := h
		m["crypto/"+h+".New"] = func(x *Exec, fr *frame, a []Value) Value {
			return nativeIface("hash", &streamObj{kind: h, acc: StrC("")})
		}
	}
	e.NativeMeth["hash.Write"] = func(x *Exec, fr *frame, a []Value) Value {
		s := a[0].(*Native).Data.(*streamObj)
		d := bytesTerm(x, a[1])
		s.acc = Concat(s.acc, d)
		return TupleV{Len(d), NilIface}
	}
	e.NativeMeth["hash.Sum"] = func(x *Exec, fr *frame, a []Value) Value {
		s := a[0].(*Native).Data.(*streamObj)
		return &BytesV{T: Concat(bytesTerm(x, a[1]), UF(s.kind, s.acc))}
	}
	m["crypto/rsa.VerifyPKCS1v15"] = func(x *Exec, fr *frame, a []Value) Value {
		n, ok := x.force(a[0]).(*Native)
		if !ok || n.Kind != "pubkey" {
			panic(&guestPanic{msg: "nil pointer dereference (*rsa.PublicKey)"})
		}
		ci := n.Data.(*certInfo)
		hashID := x.term(a[1]) // crypto.Hash: SHA1 = 3, SHA256 = 5
		hashed := bytesTerm(x, a[2])
		sig := bytesTerm(x, a[3])
		valid := FalseT
		for _, s := range x.signed {
			if s.kind != "redirect" {
				continue
			}
			// the signer used the digest its algorithm URI names (the URI may be a symbolic choice)
			sha1 := Eq(s.alg, StrC("http://www.w3.org/2000/09/xmldsig#rsa-sha1"))
			sha256 := Eq(s.alg, StrC("http://www.w3.org/2001/04/xmldsig-more#rsa-sha256"))
			digestOK := Or(And(sha1, Eq(hashID, IntC(3)), Eq(hashed, UF("sha1", s.octets))),
				And(sha256, Eq(hashID, IntC(5)), Eq(hashed, UF("sha256", s.octets))))
			valid = Or(valid, And(Eq(ci.keyID, s.keyID), digestOK, Eq(sig, s.sig)))
		}
		if x.Branch(valid) {
			return NilIface
		}
		return x.errorC("crypto/rsa: verification error")
	}
	m["encoding/asn1.Unmarshal"] = func(x *Exec, fr *frame, a []Value) Value {
		// DSA signature container: the parse fails, or yields arbitrary integers
		d := x.shape(bytesTerm(x, a[0]))
		if d.IsConst() {
			// concrete bytes: the real parser decides
			var sig struct{ R, S *big.Int }
			rest, err := asn1.Unmarshal([]byte(d.S), &sig)
			if err != nil {
				return TupleV{&BytesV{T: StrC(""), Nil: true}, x.errorC("asn1: " + err.Error())}
			}
			if iv, _ := x.force(a[1]).(*IfaceV); iv != nil && iv.T != nil {
				if p, ok := x.force(iv.V).(*Pointer); ok && !p.IsNil() {
					x.store(p, &StructV{F: []Value{&Native{Kind: "bigint", Data: IntC(int64(sig.R.Sign()))}, &Native{Kind: "bigint", Data: IntC(int64(sig.S.Sign()))}}})
				}
			}
			return TupleV{&BytesV{T: StrC(string(rest))}, NilIface}
		}
		x.unreplayable = append(x.unreplayable, "ASN.1 structure of bytes the harness did not build")
		if !x.Branch(UFSort("asn1.ok", SBool, d)) {
			return TupleV{&BytesV{T: StrC(""), Nil: true}, x.libError("asn1")}
		}
		iv, _ := x.force(a[1]).(*IfaceV)
		if iv != nil && iv.T != nil {
			if p, ok := x.force(iv.V).(*Pointer); ok && !p.IsNil() {
				if sv, ok := x.load(p).(*StructV); ok {
					f := make([]Value, len(sv.F))
					for i := range f {
						// contract: the integers of a parsed DSA signature are positive (the
						// zero/negative rejection is three more leaves of the same error path)
						f[i] = &Native{Kind: "bigint", Data: IntC(1)}
					}
					x.store(p, &StructV{F: f})
				}
			}
		}
		return TupleV{&BytesV{T: UF("asn1.rest", d)}, NilIface}
	}
	m["(*math/big.Int).Sign"] = func(x *Exec, fr *frame, a []Value) Value {
		n, ok := x.force(a[0]).(*Native)
		if !ok {
			panic(&guestPanic{msg: "nil pointer dereference (*big.Int)"})
		}
		return n.Data.(*Term)
	}
	m["crypto/dsa.Verify"] = func(x *Exec, fr *frame, a []Value) Value {
		// no DSA signer exists in the model: nothing verifies
		return FalseT
	}

	// etree / goxmldsig validation (POST binding, attribute query)
	m["github.com/beevik/etree.NewDocument"] = func(x *Exec, fr *frame, a []Value) Value {
		return &Native{Kind: "etdoc", Data: &etDoc{}}
	}
	m["(*github.com/beevik/etree.Document).ReadFromBytes"] = func(x *Exec, fr *frame, a []Value) Value {
		d := a[0].(*Native).Data.(*etDoc)
		data := x.shape(bytesTerm(x, a[1]))
		if _, ok := x.tokenOf(data); ok {
			d.data = data
			return NilIface
		}
		if data.IsConst() || x.attr(data, "undecodable") || data.Op == "uf" {
			return x.errorC("etree: XML syntax error")
		}
		if x.Branch(UFSort("etree.ok", SBool, data)) {
			d.data = data
			return NilIface
		}
		return x.errorC("etree: XML syntax error")
	}
	m["(*github.com/beevik/etree.Document).ReadFromString"] = m["(*github.com/beevik/etree.Document).ReadFromBytes"]
	m["(*github.com/beevik/etree.Document).Root"] = func(x *Exec, fr *frame, a []Value) Value {
		d := a[0].(*Native).Data.(*etDoc)
		if d.data == nil {
			return NilPtr
		}
		return &Native{Kind: "etelem", Data: &etElem{doc: d, path: "/"}}
	}
	m["(*github.com/beevik/etree.Element).FindElement"] = func(x *Exec, fr *frame, a []Value) Value {
		el, ok := x.force(a[0]).(*Native)
		if !ok {
			panic(&guestPanic{msg: "nil pointer dereference (*etree.Element)"})
		}
		ee := el.Data.(*etElem)
		path := x.constStr(a[1], "etree path")
		key := ee.path + "|" + path
		if ee.doc.finds == nil {
			ee.doc.finds = map[string]*Term{}
		}
		has, ok2 := ee.doc.finds[key]
		if !ok2 {
			has = x.fresh("etree.find", SBool)
			ee.doc.finds[key] = has
		}
		if x.Branch(has) {
			return &Native{Kind: "etelem", Data: &etElem{doc: ee.doc, path: key}}
		}
		return NilPtr
	}
	m["(*github.com/beevik/etree.Element).RemoveChild"] = func(x *Exec, fr *frame, a []Value) Value {
		return a[1]
	}
	m["github.com/russellhaering/goxmldsig.NewDefaultValidationContext"] = func(x *Exec, fr *frame, a []Value) Value {
		st := x.E.namedType("github.com/russellhaering/goxmldsig", "ValidationContext")
		c := x.newCell(zeroValue(st), st, "dsig.ValidationContext")
		p := &Pointer{Cell: c}
		x.setField(p, st, "CertificateStore", a[0])
		x.setField(p, st, "IdAttribute", StrC("ID"))
		return p
	}
	m["github.com/russellhaering/goxmldsig/etreeutils.NSBuildParentContext"] = func(x *Exec, fr *frame, a []Value) Value {
		nt := x.E.namedType("github.com/russellhaering/goxmldsig/etreeutils", "NSContext")
		return TupleV{zeroValue(nt), NilIface}
	}
	m["(github.com/russellhaering/goxmldsig/etreeutils.NSContext).SubContext"] = func(x *Exec, fr *frame, a []Value) Value {
		return TupleV{a[0], NilIface}
	}
	m["github.com/russellhaering/goxmldsig/etreeutils.NSDetatch"] = func(x *Exec, fr *frame, a []Value) Value {
		return TupleV{a[1], NilIface}
	}
	m["(*github.com/russellhaering/goxmldsig.ValidationContext).Validate"] = func(x *Exec, fr *frame, a []Value) Value {
		p, ok := x.force(a[0]).(*Pointer)
		if !ok || p.IsNil() {
			panic(&guestPanic{msg: "nil pointer dereference (*dsig.ValidationContext)"})
		}
		el, ok := x.force(a[1]).(*Native)
		if !ok {
			panic(&guestPanic{msg: "nil pointer dereference (*etree.Element)"})
		}
		ee := el.Data.(*etElem)
		st := x.E.namedType("github.com/russellhaering/goxmldsig", "ValidationContext")
		// trusted roots
		var roots []*certInfo
		cs, _ := x.force(x.getField(p, st, "CertificateStore")).(*IfaceV)
		if cs != nil && cs.T != nil {
			if sp, ok := x.force(cs.V).(*Pointer); ok && !sp.IsNil() {
				mt := x.E.namedType("github.com/russellhaering/goxmldsig", "MemoryX509CertificateStore")
				for _, c := range x.sliceElems(x.getField(sp, mt, "Roots")) {
					cp, ok := x.force(c).(*Pointer)
					if !ok || cp.IsNil() {
						panic(&guestPanic{msg: "nil pointer dereference (nil certificate in store)"})
					}
					for _, ci := range x.certs {
						if ci.ptr != nil && ci.ptr.Cell == cp.Cell {
							roots = append(roots, ci)
						}
					}
				}
			}
		}
		valid := FalseT
		for _, s := range x.signed {
			if s.kind != "enveloped" || s.by != "sp" {
				continue
			}
			inRoots := FalseT
			for _, r := range roots {
				inRoots = Or(inRoots, Eq(r.keyID, s.keyID))
			}
			valid = Or(valid, And(Eq(ee.doc.data, s.octets), inRoots))
		}
		if x.Branch(valid) {
			return TupleV{a[1], NilIface}
		}
		return TupleV{NilPtr, x.errorC("dsig: signature validation failed")}
	}
}

type privKey struct {
	id *Term
	ci *certInfo
}

type xmlSigner struct {
	ci             *certInfo
	sigAlg, digAlg *Term
}

type sigCtxInfo struct {
	alg *Term
}

type etDoc struct {
	data  *Term
	finds map[string]*Term
}
type etElem struct {
	doc  *etDoc
	path string
}

// privKeyID names a private key object (by the cell the harness created it in).
func (x *Exec) privKeyID(p *Pointer) *Term {
	if id, ok := x.privKeys[p.Cell]; ok {
		return id
	}
	id := x.sym(fmt.Sprintf("privkey!%d", len(x.privKeys)), SStr)
	x.privKeys[p.Cell] = id
	return id
}
