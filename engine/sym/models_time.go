package sym

import (
	"fmt"
	"net/url"
	"time"
)

// ---------------------------------------------------------------------------
// time, uuid, net/url, httpforwarded (DESIGN §3.1, §3.6)

type timeStr struct {
	Layout *Term
	OK     *Term
	NS     *Term
}

const uuidRe = `(re.++ ((_ re.loop 8 8) (re.union (re.range "0" "9") (re.range "a" "f"))) (str.to_re "-") ((_ re.loop 4 4) (re.union (re.range "0" "9") (re.range "a" "f"))) (str.to_re "-") ((_ re.loop 4 4) (re.union (re.range "0" "9") (re.range "a" "f"))) (str.to_re "-") ((_ re.loop 4 4) (re.union (re.range "0" "9") (re.range "a" "f"))) (str.to_re "-") ((_ re.loop 12 12) (re.union (re.range "0" "9") (re.range "a" "f"))))`

func (x *Exec) timeVal(v Value) *TimeV {
	t, ok := x.force(v).(*TimeV)
	if !ok {
		panic(abortf("expected time.Time, got %T", v))
	}
	return t
}

// parseTime is the time.Parse contract: an uninterpreted (ok, ns) pair per
// (layout, text), with parse(format(t)) = t.
func (x *Exec) parseTime(layout, s *Term) (*Term, *Term) {
	if s.Op == "uf" && s.S == "timefmt" && SameTerm(s.Args[0], layout) {
		return TrueT, s.Args[1]
	}
	if s.IsConst() && layout.IsConst() {
		t, err := time.Parse(layout.S, s.S)
		if err != nil {
			return FalseT, IntC(0)
		}
		// concrete instants are placed on the symbolic time line relative to the first clock reading only when needed
		return TrueT, IntC(t.UnixNano())
	}
	key := layout.Key() + "|" + s.Key()
	if ts, ok := x.timeStrs[key]; ok {
		return ts.OK, ts.NS
	}
	var ts *timeStr
	if s.Op == "sym" {
		if pre, ok := x.timeStrs["sym:"+s.S]; ok && SameTerm(pre.Layout, layout) {
			ts = pre
		}
	}
	if ts == nil {
		n := len(x.timeStrs)
		ts = &timeStr{Layout: layout, OK: x.sym(fmt.Sprintf("timeparse!%d.ok", n), SBool), NS: x.sym(fmt.Sprintf("timeparse!%d.ns", n), SInt)}
		x.unreplayable = append(x.unreplayable, "time.Parse of a string the harness did not build as a timestamp")
	}
	// the empty string never parses
	x.assume(Implies(Eq(s, StrC("")), Not(ts.OK)))
	x.timeStrs[key] = ts
	return ts.OK, ts.NS
}

func registerTimeModels(e *Engine) {
	m := e.Models
	m["time.Now"] = func(x *Exec, fr *frame, a []Value) Value {
		x.clockSeq++
		t := x.sym(fmt.Sprintf("clock!%d", x.clockSeq), SInt)
		if x.clockLast != nil {
			x.assume(Le(x.clockLast, t))
		} else {
			x.clockBase = t
			x.assume(Le(IntC(0), t))
			x.assume(Le(t, IntC(int64(100*365*24*3600*1e9)))) // the request starts within a century of the clock's epoch
		}
		x.clockLast = t
		x.clocks = append(x.clocks, t)
		return &TimeV{NS: t}
	}
	m["(time.Time).UTC"] = func(x *Exec, fr *frame, a []Value) Value { return x.timeVal(a[0]) }
	m["(time.Time).Local"] = m["(time.Time).UTC"]
	m["(time.Time).Add"] = func(x *Exec, fr *frame, a []Value) Value {
		return &TimeV{NS: Add(x.timeVal(a[0]).NS, x.term(a[1]))}
	}
	m["(time.Time).Sub"] = func(x *Exec, fr *frame, a []Value) Value {
		return Sub(x.timeVal(a[0]).NS, x.timeVal(a[1]).NS)
	}
	m["(time.Time).After"] = func(x *Exec, fr *frame, a []Value) Value {
		return Lt(x.timeVal(a[1]).NS, x.timeVal(a[0]).NS)
	}
	m["(time.Time).Before"] = func(x *Exec, fr *frame, a []Value) Value {
		return Lt(x.timeVal(a[0]).NS, x.timeVal(a[1]).NS)
	}
	m["(time.Time).Equal"] = func(x *Exec, fr *frame, a []Value) Value {
		return Eq(x.timeVal(a[0]).NS, x.timeVal(a[1]).NS)
	}
	m["(time.Time).IsZero"] = func(x *Exec, fr *frame, a []Value) Value {
		return Eq(x.timeVal(a[0]).NS, zeroTimeNS)
	}
	m["(time.Time).Unix"] = func(x *Exec, fr *frame, a []Value) Value {
		return UFSort("unixsec", SInt, x.timeVal(a[0]).NS)
	}
	m["(time.Time).Format"] = func(x *Exec, fr *frame, a []Value) Value {
		return UF("timefmt", x.term(a[1]), x.timeVal(a[0]).NS)
	}
	m["time.Parse"] = func(x *Exec, fr *frame, a []Value) Value {
		ok, ns := x.parseTime(x.term(a[0]), x.term(a[1]))
		if x.Branch(ok) {
			return TupleV{&TimeV{NS: ns}, NilIface}
		}
		return TupleV{&TimeV{NS: zeroTimeNS}, x.newError(Concat(StrC("parsing time "), x.term(a[1]), StrC(": cannot parse")), nil)}
	}
	m["time.Since"] = func(x *Exec, fr *frame, a []Value) Value {
		now := m["time.Now"](x, fr, nil).(*TimeV)
		return Sub(now.NS, x.timeVal(a[0]).NS)
	}

	// uuid
	m["github.com/google/uuid.New"] = func(x *Exec, fr *frame, a []Value) Value {
		x.idSeq++
		u := x.sym(fmt.Sprintf("uuid!%d", x.idSeq), SStr)
		// the textual form (8-4-4-4-12 lower-case hex) is known structurally, see
		// InReOrConst; only the length is given to the solver
		x.setAttr(u, "uuid")
		x.assume(Eq(Len(u), IntC(36)))
		for _, o := range x.uuids {
			x.assume(Not(Eq(u, o)))
		}
		x.uuids = append(x.uuids, u)
		return &Native{Kind: "uuid", Data: u}
	}
	m["github.com/google/uuid.NewString"] = func(x *Exec, fr *frame, a []Value) Value {
		return m["github.com/google/uuid.New"](x, fr, a).(*Native).Data.(*Term)
	}
	m["(github.com/google/uuid.UUID).String"] = func(x *Exec, fr *frame, a []Value) Value {
		return a[0].(*Native).Data.(*Term)
	}

	// net/url
	m["net/url.QueryEscape"] = func(x *Exec, fr *frame, a []Value) Value {
		t := x.term(a[0])
		if t.IsConst() {
			return StrC(url.QueryEscape(t.S))
		}
		return UF("qe", t)
	}
	m["net/url.QueryUnescape"] = func(x *Exec, fr *frame, a []Value) Value {
		t := x.term(a[0])
		if t.IsConst() {
			s, err := url.QueryUnescape(t.S)
			if err != nil {
				return TupleV{StrC(""), x.errorC("invalid URL escape")}
			}
			return TupleV{StrC(s), NilIface}
		}
		if t.Op == "uf" && escapeUF[t.S] {
			return TupleV{t.Args[0], NilIface}
		}
		if x.Branch(UFSort("unqe.ok", SBool, t)) {
			return TupleV{UF("unqe", t), NilIface}
		}
		return TupleV{StrC(""), x.errorC("invalid URL escape")}
	}
	// url.PathUnescape decodes %XX like QueryUnescape but leaves '+' alone: for a value the
	// sender escaped in a style that writes a blank as '+' the result is the value with
	// its blanks turned into '+'
	m["net/url.PathUnescape"] = func(x *Exec, fr *frame, a []Value) Value {
		t := x.term(a[0])
		if t.IsConst() {
			s, err := url.PathUnescape(t.S)
			if err != nil {
				return TupleV{StrC(""), x.errorC("invalid URL escape")}
			}
			return TupleV{StrC(s), NilIface}
		}
		if t.Op == "uf" && escapeUF[t.S] {
			if t.S == "qe2" { // the "%20" style
				return TupleV{t.Args[0], NilIface}
			}
			return TupleV{ReplaceAll(t.Args[0], StrC(" "), StrC("+")), NilIface}
		}
		if x.Branch(UFSort("unpe.ok", SBool, t)) {
			return TupleV{UF("unpe", t), NilIface}
		}
		return TupleV{StrC(""), x.errorC("invalid URL escape")}
	}
	m["net/url.PathEscape"] = func(x *Exec, fr *frame, a []Value) Value {
		t := x.term(a[0])
		if t.IsConst() {
			return StrC(url.PathEscape(t.S))
		}
		return UF("pe", t)
	}
	// url.ParseRequestURI: like Parse for absolute URLs and rooted paths, but the text is
	// taken to have no #fragment - a '#' and what follows stays in the path (or in
	// the query, or in the host, where it is invalid). Contract for constant texts and
	// for URLs the harness built from components; other symbolic texts: no contract.
	m["net/url.ParseRequestURI"] = func(x *Exec, fr *frame, a []Value) Value {
		t := x.term(a[0])
		ut := x.E.namedType("net/url", "URL")
		c := x.newCell(zeroValue(ut), ut, "url.ParseRequestURI")
		p := &Pointer{Cell: c}
		if t.IsConst() {
			u, err := url.ParseRequestURI(t.S)
			if err != nil {
				return TupleV{NilPtr, x.errorC("parse " + t.S + ": " + err.Error())}
			}
			x.setField(p, ut, "Scheme", StrC(u.Scheme))
			x.setField(p, ut, "Opaque", StrC(u.Opaque))
			x.setField(p, ut, "Host", StrC(u.Host))
			x.setField(p, ut, "Path", StrC(u.Path))
			x.setField(p, ut, "RawPath", StrC(u.RawPath))
			x.setField(p, ut, "RawQuery", StrC(u.RawQuery))
			x.setField(p, ut, "Fragment", StrC(u.Fragment))
			x.setField(p, ut, "ForceQuery", BoolC(u.ForceQuery))
			return TupleV{p, NilIface}
		}
		if x.attr(t, "badurl") {
			return TupleV{NilPtr, x.libError("url.ParseRequestURI")}
		}
		parts, ok := x.urlParts[t.S]
		if !ok || t.Op != "sym" {
			panic(abortf("no contract for url.ParseRequestURI of a symbolic text the harness did not build from components"))
		}
		scheme, host, path, query, frag := parts[0], parts[1], parts[2], parts[3], parts[4]
		// neither an absolute URI nor an absolute path
		if x.Branch(And(Eq(scheme, StrC("")), Not(PrefixOf(StrC("/"), path)))) {
			return TupleV{NilPtr, x.libError("url.ParseRequestURI")}
		}
		hasFrag := x.Branch(Not(Eq(frag, StrC(""))))
		hasQuery := x.Branch(Not(Eq(query, StrC(""))))
		tail := StrC("")
		if hasFrag {
			tail = Concat(StrC("#"), frag)
		}
		x.setField(p, ut, "Scheme", scheme)
		x.setField(p, ut, "Host", host)
		switch {
		case hasQuery:
			x.setField(p, ut, "Path", path)
			x.setField(p, ut, "RawQuery", Concat(query, tail))
		case hasFrag && x.Branch(Eq(path, StrC(""))):
			// "scheme://host#x": the '#' lands in the host, which is invalid
			return TupleV{NilPtr, x.libError("url.ParseRequestURI")}
		default:
			x.setField(p, ut, "Path", Concat(path, tail))
		}
		x.urlInfos[c] = &urlInfo{simple: true}
		return TupleV{p, NilIface}
	}
	m["net/url.Parse"] = func(x *Exec, fr *frame, a []Value) Value {
		t := x.term(a[0])
		ut := x.E.namedType("net/url", "URL")
		c := x.newCell(zeroValue(ut), ut, "url.Parse")
		p := &Pointer{Cell: c}
		if t.IsConst() {
			u, err := url.Parse(t.S)
			if err != nil {
				return TupleV{NilPtr, x.errorC("parse " + t.S + ": " + err.Error())}
			}
			x.setField(p, ut, "Scheme", StrC(u.Scheme))
			x.setField(p, ut, "Opaque", StrC(u.Opaque))
			x.setField(p, ut, "Host", StrC(u.Host))
			x.setField(p, ut, "Path", StrC(u.Path))
			x.setField(p, ut, "RawPath", StrC(u.RawPath))
			x.setField(p, ut, "RawQuery", StrC(u.RawQuery))
			x.setField(p, ut, "Fragment", StrC(u.Fragment))
			x.setField(p, ut, "RawFragment", StrC(u.RawFragment))
			x.setField(p, ut, "ForceQuery", BoolC(u.ForceQuery))
			x.setField(p, ut, "OmitHost", BoolC(u.OmitHost))
			return TupleV{p, NilIface}
		}
		if parts, ok := x.urlParts[t.S]; ok && t.Op == "sym" {
			// a URL the harness built from components (unambiguous alphabets)
			x.setField(p, ut, "Scheme", parts[0])
			x.setField(p, ut, "Host", parts[1])
			x.setField(p, ut, "Path", parts[2])
			x.setField(p, ut, "RawQuery", parts[3])
			x.setField(p, ut, "Fragment", parts[4])
			x.urlInfos[c] = &urlInfo{simple: true}
			return TupleV{p, NilIface}
		}
		if x.attr(t, "badurl") {
			return TupleV{NilPtr, x.libError("url.Parse")}
		}
		// symbolic text. Stated bound: the parser fails, or the text has one of two
		// plain shapes on which Go's parser is transcribed exactly -
		//   scheme "://" [userinfo "@"] host [":" port] [path] ["?" query] ["#" fragment]
		//   path ["?" query] ["#" fragment]            (path empty or starting with "/")
		// over plain alphabets (letters, digits, "/._-" in paths, "=&" in queries). Other texts a
		// parser accepts (opaque URLs, escapes, IPv6 literals, "//host" references) are
		// outside the claim.
		name := "urlparse(" + t.Key() + ")"
		x.bounds["shapes of URLs parsed from symbolic text (absolute, path-only)"] = 2
		// the structure is read off the text with regular-expression tests (cheap to
		// decide against other constraints on the text); the components are then tied
		// to it by one word equation
		const alnum = `(re.range "a" "z") (re.range "0" "9")`
		const noDelim = `(re.* (re.diff re.allchar (re.union (str.to_re "/") (str.to_re "?") (str.to_re "#"))))`
		const absPrefix = `(re.++ (re.+ (re.range "a" "z")) (str.to_re "://"))`
		if !x.Branch(x.sym(name+".ok", SBool)) {
			// texts the parser rejects are represented by those holding a DEL control character
			x.assume(InRe(t, `(re.++ re.all (str.to_re "\u{7f}") re.all)`))
			return TupleV{NilPtr, x.libError("url.Parse")}
		}
		abs := x.Branch(InRe(t, `(re.++ `+absPrefix+` re.all)`))
		hasUser := false
		var hasPath bool
		if abs {
			hasUser = x.Branch(InRe(t, `(re.++ `+absPrefix+` (re.+ (re.union `+alnum+`)) (str.to_re "@") re.all)`))
			hasPath = x.Branch(InRe(t, `(re.++ `+absPrefix+` `+noDelim+` (str.to_re "/") re.all)`))
		} else {
			hasPath = x.Branch(InRe(t, `(re.++ (re.diff re.allchar (re.union (str.to_re "?") (str.to_re "#"))) re.all)`))
		}
		hasQuery := x.Branch(InRe(t, `(re.++ (re.* (re.diff re.allchar (str.to_re "#"))) (str.to_re "?") re.all)`))
		hasFrag := x.Branch(InRe(t, `(re.++ re.all (str.to_re "#") re.all)`))
		pathT, q, f := StrC(""), StrC(""), StrC("")
		hasQ := BoolC(hasQuery)
		var parts []*Term
		scheme, host := StrC(""), StrC("")
		var user Value = NilPtr
		if abs {
			scheme = x.sym(name+".Scheme", SStr)
			host = x.sym(name+".Host", SStr)
			x.assume(InRe(scheme, `(re.+ (re.range "a" "z"))`))
			x.assume(InRe(host, `(re.++ (re.* (re.union `+alnum+` (re.range "A" "Z") (str.to_re "-") (str.to_re "."))) (re.opt (re.++ (str.to_re ":") (re.* (re.range "0" "9")))))`))
			parts = append(parts, scheme, StrC("://"))
			if hasUser {
				u := x.sym(name+".User", SStr)
				x.assume(InRe(u, `(re.+ (re.union `+alnum+`))`))
				parts = append(parts, u, StrC("@"))
				uit := x.E.namedType("net/url", "Userinfo")
				uc := x.newCell(zeroValue(uit), uit, "url.Userinfo")
				user = &Pointer{Cell: uc}
				x.setField(user.(*Pointer), uit, "username", u)
			}
			parts = append(parts, host)
		}
		if hasPath {
			if !abs && !hasQuery && !hasFrag {
				pathT = t // the text is the path
			} else {
				pathT = x.sym(name+".Path", SStr)
			}
			if abs {
				x.assume(InRe(pathT, `(re.++ (str.to_re "/") (re.* (re.union `+alnum+` (re.range "A" "Z") (str.to_re "/") (str.to_re ".") (str.to_re "-") (str.to_re "_"))))`))
			} else {
				// a path-only reference may also be relative ("saml/idp")
				x.assume(InRe(pathT, `(re.+ (re.union `+alnum+` (re.range "A" "Z") (str.to_re "/") (str.to_re ".") (str.to_re "-") (str.to_re "_")))`))
			}
			parts = append(parts, pathT)
		}
		if hasQuery {
			q = x.sym(name+".RawQuery", SStr)
			x.assume(InRe(q, `(re.* (re.union `+alnum+` (str.to_re "=") (str.to_re "&")))`))
			parts = append(parts, StrC("?"), q)
		}
		if hasFrag {
			f = x.sym(name+".Fragment", SStr)
			x.assume(InRe(f, `(re.* (re.union `+alnum+`))`))
			parts = append(parts, StrC("#"), f)
		}
		if !(len(parts) == 1 && parts[0] == t) {
			x.assume(Eq(t, Concat(parts...)))
		}
		x.setField(p, ut, "Scheme", scheme)
		x.setField(p, ut, "Host", host)
		x.setField(p, ut, "User", user)
		x.setField(p, ut, "Path", pathT)
		x.setField(p, ut, "RawQuery", q)
		x.setField(p, ut, "Fragment", f)
		x.setField(p, ut, "ForceQuery", And(hasQ, Eq(q, StrC(""))))
		x.urlInfos[c] = &urlInfo{shaped: true}
		return TupleV{p, NilIface}
	}

	// Forwarded header grammar: error, or an arbitrary list of hosts (<= 2)
	m["github.com/muhlemmer/httpforwarded.ParseParameter"] = func(x *Exec, fr *frame, a []Value) Value {
		x.fwdSeq++
		name := fmt.Sprintf("forwarded!%d", x.fwdSeq)
		vals := x.force(a[1])
		if sv, ok := vals.(*SliceV); ok && sv.Len == 0 {
			// no header values: no hosts, no error
			return TupleV{&SliceV{}, NilIface}
		}
		// header values the harness built: "host=<token>" yields that host, text
		// flagged as malformed yields an error
		if sv, ok := vals.(*SliceV); ok {
			var hosts []Value
			shaped := true
			for _, e := range x.sliceElems(sv) {
				t := x.term(e)
				ps := flatten(t)
				switch {
				case len(ps) == 2 && ps[0].IsConst() && ps[0].S == "host=":
					hosts = append(hosts, ps[1])
				case x.attr(t, "badforwarded"):
					return TupleV{&SliceV{}, x.libError("httpforwarded")}
				case t.IsConst() && t.S == "for=192.0.2.1":
					// an element without host parameter
				default:
					shaped = false
				}
			}
			if shaped {
				return TupleV{x.makeSlice(hosts), NilIface}
			}
		}
		x.unreplayable = append(x.unreplayable, "Forwarded header values the harness did not build")
		if x.Branch(x.sym(name+".err", SBool)) {
			return TupleV{&SliceV{}, x.libError("httpforwarded")}
		}
		n := x.Choose(name+".n", 3)
		x.bounds["hosts returned by the Forwarded parser"] = 2
		var es []Value
		for i := 0; i < n; i++ {
			es = append(es, x.sym(fmt.Sprintf("%s.host[%d]", name, i), SStr))
		}
		return TupleV{x.makeSlice(es), NilIface}
	}
}
