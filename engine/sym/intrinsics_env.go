package sym

import (
	"fmt"
	"go/types"
	"os"
	"regexp"
	"strings"
)

// Environment intrinsics of the harness runtime: requests, response writer,
// observation of replies, wire encodings, key material, clock.

func (x *Exec) harnessType(name string) types.Type {
	m := x.E.HarnessPkg.Members[name]
	if m == nil {
		panic(abortf("harness type %s not found", name))
	}
	return m.Type()
}

// makeStruct builds a value of a harness struct type from named fields.
func (x *Exec) makeStruct(t types.Type, fields map[string]Value) *StructV {
	z := zeroValue(t).(*StructV)
	f := append([]Value{}, z.F...)
	for n, v := range fields {
		f[x.fieldIdx(t, n)] = v
	}
	return &StructV{F: f}
}

var tmplActionRe = regexp.MustCompile(`\{\{\s*\.([A-Za-z0-9_]+)\s*\}\}`)

// templateShape checks the constant template text: exactly three actions, each
// the complete content of a double-quoted attribute value: the form's action
// and the value of the RelayState and SAMLResponse inputs.
func templateShape(text string) (action, relay, resp string, ok bool) {
	all := tmplActionRe.FindAllStringSubmatchIndex(text, -1)
	if len(all) != 3 || strings.Count(text, "{{") != 3 {
		return "", "", "", false
	}
	for _, m := range all {
		if m[0] == 0 || text[m[0]-1] != '"' || m[1] >= len(text) || text[m[1]] != '"' {
			return "", "", "", false
		}
	}
	re := regexp.MustCompile(`<form action="\{\{\s*\.([A-Za-z0-9_]+)\s*\}\}"`)
	if m := re.FindStringSubmatch(text); m != nil {
		action = m[1]
	}
	re = regexp.MustCompile(`<input type="hidden" name="RelayState"\s+value="\{\{\s*\.([A-Za-z0-9_]+)\s*\}\}"/>`)
	if m := re.FindStringSubmatch(text); m != nil {
		relay = m[1]
	}
	re = regexp.MustCompile(`<input type="hidden" name="SAMLResponse"\s+value="\{\{\s*\.([A-Za-z0-9_]+)\s*\}\}"/>`)
	if m := re.FindStringSubmatch(text); m != nil {
		resp = m[1]
	}
	ok = action != "" && relay != "" && resp != "" && strings.Count(text, "<form") == 1 && strings.Count(text, "<input type=\"hidden\"") == 2
	return
}

func isPlainString(t types.Type) bool {
	b, ok := t.(*types.Basic)
	return ok && b.Kind() == types.String
}

func (e *Engine) registerEnvIntrinsics(pkgPath string) {
	reg := func(name string, f ModelFn) { e.Models[pkgPath+"."+name] = f }

	// ---- requests
	reg("vrtNewRequest", func(x *Exec, fr *frame, a []Value) Value {
		name := x.constStr(a[0], "request name")
		ri := &reqInfo{name: name, method: x.term(a[1]), path: x.term(a[2]), params: map[string]*paramInfo{}, lazyExtra: true,
			host: x.sym(name+".host", SStr), parseFail: x.sym(name+".parsefail", SBool), body: StrC(""), bodyFail: FalseT}
		return &Native{Kind: "reqb", Data: ri}
	})
	reg("vrtReqParam", func(x *Exec, fr *frame, a []Value) Value {
		ri := x.force(a[0]).(*Native).Data.(*reqInfo)
		key := x.constStr(a[1], "parameter name")
		p := &paramInfo{key: key, qHas: x.term(a[2]), qVal: x.term(a[3]), bHas: x.term(a[4]), bVal: x.term(a[5])}
		x.assume(Implies(p.bHas, bodyMethod(ri.method)))
		if _, dup := ri.params[key]; !dup {
			ri.order = append(ri.order, key)
		}
		ri.params[key] = p
		return nil
	})
	// vrtReqParamRaw(rb, key, has, raw, val): a query parameter whose raw (still
	// percent-encoded) text is given explicitly; val is what it decodes to
	reg("vrtReqParamRaw", func(x *Exec, fr *frame, a []Value) Value {
		ri := x.force(a[0]).(*Native).Data.(*reqInfo)
		key := x.constStr(a[1], "parameter name")
		p := &paramInfo{key: key, qHas: x.term(a[2]), qRaw: x.term(a[3]), qVal: x.term(a[4]), bHas: FalseT, bVal: StrC("")}
		if _, dup := ri.params[key]; !dup {
			ri.order = append(ri.order, key)
		}
		ri.params[key] = p
		return nil
	})
	// vrtEscapeStyle(style, s): s percent-encoded for a query string in one of the
	// legal styles: 0 Go's url.QueryEscape (upper-case hex, '+' for space), 1 lower-case hex,
	// 2 "%20" for space
	reg("vrtEscapeStyle", func(x *Exec, fr *frame, a []Value) Value {
		st := x.term(a[0])
		if !st.IsConst() {
			panic(abortf("vrtEscapeStyle needs a concrete style"))
		}
		t := x.term(a[1])
		if st.I == 0 {
			return x.callModel("net/url.QueryEscape", fr, t)
		}
		if t.IsConst() {
			return StrC(EscapeStyle(int(st.I), t.S))
		}
		return UF(fmt.Sprintf("qe%d", st.I), t)
	})
	reg("vrtReqBody", func(x *Exec, fr *frame, a []Value) Value {
		ri := x.force(a[0]).(*Native).Data.(*reqInfo)
		ri.body = x.term(a[1])
		ri.bodyFail = x.term(a[2])
		return nil
	})
	reg("vrtReqNoExtras", func(x *Exec, fr *frame, a []Value) Value {
		x.force(a[0]).(*Native).Data.(*reqInfo).lazyExtra = false
		return nil
	})
	reg("vrtReqHost", func(x *Exec, fr *frame, a []Value) Value {
		x.force(a[0]).(*Native).Data.(*reqInfo).host = x.term(a[1])
		return nil
	})
	reg("vrtReqBuild", func(x *Exec, fr *frame, a []Value) Value {
		ri := x.force(a[0]).(*Native).Data.(*reqInfo)
		rt := x.E.namedType("net/http", "Request")
		ut := x.E.namedType("net/url", "URL")
		uc := x.newCell(zeroValue(ut), ut, "request URL")
		up := &Pointer{Cell: uc}
		x.setField(up, ut, "Path", ri.path)
		rq := x.sym(ri.name+".rawquery", SStr)
		x.rawQueries[rq.S] = ri
		x.setField(up, ut, "RawQuery", rq)
		x.urlInfos[uc] = &urlInfo{req: ri}
		c := x.newCell(zeroValue(rt), rt, "request")
		p := &Pointer{Cell: c}
		x.setField(p, rt, "Method", ri.method)
		x.setField(p, rt, "URL", up)
		x.setField(p, rt, "Host", ri.host)
		x.setField(p, rt, "Proto", StrC("HTTP/1.1"))
		ri.headers = &MapObj{Epoch: x.epoch, Lazy: &lazyMapSpec{"header", ri}}
		x.setField(p, rt, "Header", &MapV{M: ri.headers})
		x.setField(p, rt, "Body", nativeIface("bodyreader", &streamObj{content: ri.body, failed: ri.bodyFail}))
		x.reqs[c] = ri
		// OPTIONS pre-flights are answered by the CORS middleware, not by the module
		x.assume(Not(Eq(ri.method, StrC("OPTIONS"))))
		return p
	})
	reg("vrtNewWriter", func(x *Exec, fr *frame, a []Value) Value {
		return nativeIface("respwriter", &respWriter{hdr: &MapObj{Epoch: 1 << 30, Kind: "header"}, code: IntC(0)})
	})
	reg("vrtObserve", func(x *Exec, fr *frame, a []Value) Value {
		iv, _ := x.force(a[0]).(*IfaceV)
		if iv == nil || iv.T == nil {
			panic(abortf("vrtObserve: nil writer"))
		}
		n, ok := iv.V.(*Native)
		if !ok || n.Kind != "respwriter" {
			panic(abortf("vrtObserve: not a runtime writer"))
		}
		return x.observe(n.Data.(*respWriter))
	})

	// ---- wire encodings (the simulated service provider / the verifier)
	reg("vrtWireXML", func(x *Exec, fr *frame, a []Value) Value {
		iv, _ := x.force(a[0]).(*IfaceV)
		if iv == nil || iv.T == nil {
			panic(abortf("vrtWireXML: nil value"))
		}
		tok := x.token("xml", iv.V, iv.T)
		// stated bound: documents built by the harnesses are at most 1 MiB (larger payloads are C14's subject)
		x.assume(Le(Len(tok), IntC(1<<20)))
		return tok
	})
	reg("vrtB64", func(x *Exec, fr *frame, a []Value) Value {
		return x.callModel("(*encoding/base64.Encoding).EncodeToString", fr, &Native{Kind: "b64encoding", Data: "b64"}, &BytesV{T: x.term(a[0])})
	})
	reg("vrtDeflate", func(x *Exec, fr *frame, a []Value) Value { return UF("deflate", x.term(a[0])) })
	reg("vrtQueryEscape", func(x *Exec, fr *frame, a []Value) Value { return x.callModel("net/url.QueryEscape", fr, a[0]) })
	reg("vrtUndecodable", func(x *Exec, fr *frame, a []Value) Value {
		t := x.term(a[0])
		if t.Op != "sym" {
			panic(abortf("vrtUndecodable needs a plain symbolic string"))
		}
		x.setAttr(t, "undecodable")
		return TrueT
	})
	reg("vrtUnB64", func(x *Exec, fr *frame, a []Value) Value {
		t := x.shape(x.term(a[0]))
		if t.Op == "uf" && t.S == "b64" {
			return TupleV{t.Args[0], TrueT}
		}
		r := x.callModel("(*encoding/base64.Encoding).DecodeString", fr, &Native{Kind: "b64encoding", Data: "b64"}, t).(TupleV)
		return TupleV{bytesTerm(x, r[0]), BoolC(isNilErr(r[1]))}
	})
	reg("vrtInflate", func(x *Exec, fr *frame, a []Value) Value {
		d, err := x.inflate(x.term(a[0]))
		if err != nil {
			return TupleV{StrC(""), FalseT}
		}
		return TupleV{d, TrueT}
	})
	reg("vrtXMLTo", func(x *Exec, fr *frame, a []Value) Value {
		data := x.term(a[0])
		ok := isNilErr(x.xmlDecode(data, a[1]))
		// C18: the library's decoder returns exactly the values that were put into the
		// document (custom marshalling methods of module types are executed by the
		// encode / decode contracts and may break this)
		if ok && x.E.Prop == "C18" {
			if tok, isTok := x.tokenOf(x.shape(data)); isTok && tok.In != nil {
				if iv, isI := x.force(a[1]).(*IfaceV); isI && iv.T != nil {
					if p, isP := x.force(iv.V).(*Pointer); isP && !p.IsNil() {
						in := tok.In
						if ip, isIP := in.(*Pointer); isIP && !ip.IsNil() {
							in = x.load(ip)
						}
						eq := x.deepEqual(in, x.load(p), 0)
						if x.E.Debug {
							fmt.Fprintln(os.Stderr, "FAITHFUL:", trunc(eq.Key(), 600))
						}
						x.assertCond("C18.library-decoder-returns-the-values-put-in", eq, "")
					}
				}
			}
		}
		return BoolC(ok)
	})
	reg("vrtLegalASCII", func(x *Exec, fr *frame, a []Value) Value {
		return InRe(x.term(a[0]), `(re.* (re.union (str.to_re "\u{9}") (str.to_re "\u{a}") (str.to_re "\u{d}") (re.range " " "~")))`)
	})
	reg("vrtXMLDocs", func(x *Exec, fr *frame, a []Value) Value {
		n := 0
		for _, p := range flatten(x.term(a[0])) {
			if p.Op == "sym" {
				if tk, ok := x.xmlTokens[p.S]; ok && tk.Kind == "xml" {
					n++
				}
			}
		}
		return IntC(int64(n))
	})
	reg("vrtCutPrefix", func(x *Exec, fr *frame, a []Value) Value {
		s, p := x.term(a[0]), x.term(a[1])
		c := PrefixOf(p, s)
		if c.IsTrue() {
			return TupleV{TrimPrefix(s, p), TrueT}
		}
		if c.IsFalse() {
			return TupleV{s, FalseT}
		}
		// piecewise alignment: p = u1 .. uk-1 "lit", s = v1 .. vk-1 "lit..." rest
		ps, pp := flatten(s), flatten(p)
		if n := len(pp); n >= 1 && n <= len(ps) {
			eq := TrueT
			for k := 0; k < n-1; k++ {
				eq = And(eq, Eq(pp[k], ps[k]))
			}
			last, sl := pp[n-1], ps[n-1]
			var rest []*Term
			if last.IsConst() && sl.IsConst() && strings.HasPrefix(sl.S, last.S) {
				rest = append([]*Term{StrC(sl.S[len(last.S):])}, ps[n:]...)
			} else {
				eq = And(eq, Eq(last, sl))
				rest = ps[n:]
			}
			if !eq.IsFalse() && x.Branch(eq) {
				return TupleV{Concat(rest...), TrueT}
			}
		}
		if x.Branch(c) {
			return TupleV{TrimPrefix(s, p), TrueT}
		}
		return TupleV{s, FalseT}
	})
	// vrtQueryRaw(q, key): the raw (still escaped) value of key in a query
	// string. Justified on terms whose values are escaped terms (the qe axiom:
	// an escaped value contains neither '&' nor '='); anything else is reported.
	reg("vrtQueryRaw", func(x *Exec, fr *frame, a []Value) Value {
		q := x.term(a[0])
		key := x.constStr(a[1], "query key")
		params, ok := splitQuery(q)
		if !ok {
			x.inconclusive = append(x.inconclusive, "redirect query is not a concatenation of key=escaped-value segments: "+trunc(q.Key(), 160))
			return TupleV{StrC(""), FalseT, IntC(0)}
		}
		cnt := 0
		var val *Term
		for _, p := range params {
			if p.key == key {
				cnt++
				if val == nil {
					val = p.val
				}
			}
		}
		if val == nil {
			return TupleV{StrC(""), FalseT, IntC(0)}
		}
		return TupleV{val, TrueT, IntC(int64(cnt))}
	})
	reg("vrtQueryKeys", func(x *Exec, fr *frame, a []Value) Value {
		params, ok := splitQuery(x.term(a[0]))
		if !ok {
			return StrC("?")
		}
		var ks []string
		for _, p := range params {
			ks = append(ks, p.key)
		}
		return StrC(strings.Join(ks, ","))
	})
	reg("vrtUnescape", func(x *Exec, fr *frame, a []Value) Value {
		r := x.callModel("net/url.QueryUnescape", fr, a[0]).(TupleV)
		return TupleV{r[0], BoolC(isNilErr(r[1]))}
	})
	// vrtSameURL: equality in the engine; natively equality modulo the
	// normalisation net/http.Redirect and html/template apply to a URL.
	reg("vrtSameURL", func(x *Exec, fr *frame, a []Value) Value { return Eq(x.term(a[0]), x.term(a[1])) })

	// ---- routing (C11): which handler serves a path, under which path a handler is registered
	routerOf := func(x *Exec, v Value) *routerObj {
		iv, _ := x.force(v).(*IfaceV)
		if iv == nil || iv.T == nil {
			panic(abortf("vrtRoute: nil handler"))
		}
		n, ok := iv.V.(*Native)
		if !ok || n.Kind != "router" {
			panic(abortf("vrtRoute: the provider's handler is not the mux router"))
		}
		return n.Data.(*routerObj)
	}
	handlerName := func(x *Exec, rt *routeObj) string {
		v := rt.fn
		if rt.handler != nil {
			if iv, ok := x.force(rt.handler).(*IfaceV); ok && iv.T != nil {
				v = iv.V
			}
		}
		if f, ok := x.force(v).(*FuncV); ok {
			if f.Fn != nil {
				return f.Fn.String()
			}
			return f.Name
		}
		return "?"
	}
	reg("vrtRouteHandler", func(x *Exec, fr *frame, a []Value) Value {
		r := routerOf(x, a[0])
		path := x.term(a[1])
		for _, rt := range r.routes {
			if x.Branch(Eq(rt.path, path)) {
				return StrC(handlerName(x, rt))
			}
		}
		return StrC("")
	})
	reg("vrtRoutePathOf", func(x *Exec, fr *frame, a []Value) Value {
		r := routerOf(x, a[0])
		want := x.constStr(a[1], "handler name")
		for _, rt := range r.routes {
			if strings.Contains(handlerName(x, rt), want) {
				return TupleV{rt.path, TrueT}
			}
		}
		return TupleV{StrC(""), FalseT}
	})

	// ---- C14: payloads of symbolic length, bytes materialised by inflating readers
	reg("vrtRepeat", func(x *Exec, fr *frame, a []Value) Value {
		n := x.term(a[1])
		x.freshSeq++
		s := x.sym(fmt.Sprintf("repeat!%d", x.freshSeq), SStr)
		// the length is kept as an integer term of its own (string solvers do not
		// cope with lengths of 2^25 and more); stream contracts use it via lenOf
		x.knownLen[s.S] = n
		x.assume(Eq(Eq(s, StrC("")), Eq(n, IntC(0))))
		x.setAttr(s, "undecodable") // padding is not a document
		return s
	})
	reg("vrtZlib", func(x *Exec, fr *frame, a []Value) Value { return UF("zlibwrap", x.term(a[0])) })
	reg("vrtGzip", func(x *Exec, fr *frame, a []Value) Value { return UF("gzipwrap", x.term(a[0])) })
	reg("vrtMaterialisedWithin", func(x *Exec, fr *frame, a []Value) Value {
		lim := x.term(a[0])
		r := TrueT
		for _, m := range x.materialised {
			r = And(r, Le(m, lim))
		}
		return r
	})
	reg("vrtAllocStart", func(x *Exec, fr *frame, a []Value) Value { return nil })
	reg("vrtMaterialisations", func(x *Exec, fr *frame, a []Value) Value { return IntC(int64(len(x.materialised))) })

	// ---- C19: URLs built from components; request headers given explicitly
	reg("vrtURL", func(x *Exec, fr *frame, a []Value) Value {
		x.freshSeq++
		u := x.sym(fmt.Sprintf("url!%d", x.freshSeq), SStr)
		x.urlParts[u.S] = []*Term{x.term(a[0]), x.term(a[1]), x.term(a[2]), x.term(a[3]), x.term(a[4])}
		// the text is not empty when any component is
		x.assume(Implies(Eq(u, StrC("")), And(Eq(x.term(a[0]), StrC("")), Eq(x.term(a[1]), StrC("")), Eq(x.term(a[2]), StrC("")), Eq(x.term(a[3]), StrC("")), Eq(x.term(a[4]), StrC("")))))
		return u
	})
	reg("vrtBadURL", func(x *Exec, fr *frame, a []Value) Value {
		x.freshSeq++
		u := x.sym(fmt.Sprintf("badurl!%d", x.freshSeq), SStr)
		x.setAttr(u, "badurl")
		x.assume(Not(Eq(u, StrC(""))))
		return u
	})
	reg("vrtBadForwarded", func(x *Exec, fr *frame, a []Value) Value {
		x.freshSeq++
		u := x.sym(fmt.Sprintf("badforwarded!%d", x.freshSeq), SStr)
		x.setAttr(u, "badforwarded")
		return u
	})
	reg("vrtReqHeader", func(x *Exec, fr *frame, a []Value) Value {
		ri := x.force(a[0]).(*Native).Data.(*reqInfo)
		key := x.constStr(a[1], "header name")
		if ri.explicitHdr == nil {
			ri.explicitHdr = map[string][]Value{}
		}
		ri.explicitHdr[key] = x.sliceElems(a[2])
		return nil
	})

	// ---- clock
	reg("vrtIsClockReading", func(x *Exec, fr *frame, a []Value) Value {
		t := x.term(a[0])
		r := FalseT
		for _, c := range x.clocks {
			r = Or(r, Eq(t, c))
		}
		return r
	})
	reg("vrtClockCount", func(x *Exec, fr *frame, a []Value) Value { return IntC(int64(len(x.clocks))) })
	// vrtSomeClockSatisfies(lo, hasLo, hi, hasHi): exists a clock reading T of
	// this run with (hasLo => lo <= T) and (hasHi => T < hi)
	reg("vrtSomeClockSatisfies", func(x *Exec, fr *frame, a []Value) Value {
		lo, hasLo, hi, hasHi := x.term(a[0]), x.term(a[1]), x.term(a[2]), x.term(a[3])
		r := FalseT
		for _, c := range x.clocks {
			r = Or(r, And(Implies(hasLo, Le(lo, c)), Implies(hasHi, Lt(c, hi))))
		}
		return r
	})
	reg("vrtAllClocksSatisfy", func(x *Exec, fr *frame, a []Value) Value {
		lo, hasLo, hi, hasHi := x.term(a[0]), x.term(a[1]), x.term(a[2]), x.term(a[3])
		r := TrueT
		for _, c := range x.clocks {
			r = And(r, Implies(hasLo, Le(lo, c)), Implies(hasHi, Lt(c, hi)))
		}
		return r
	})
	reg("vrtTimestamp", func(x *Exec, fr *frame, a []Value) Value {
		name := x.constStr(a[0], "timestamp name")
		layout := x.term(a[1])
		s := x.sym(name, SStr)
		ts := &timeStr{Layout: layout, OK: x.sym(name+".ok", SBool), NS: x.sym(name+".ns", SInt)}
		x.timeStrs["sym:"+name] = ts
		x.timeSyms = append(x.timeSyms, ts)
		x.assume(Implies(Eq(s, StrC("")), Not(ts.OK)))
		// harness timestamps denote instants within 100 years of the epoch of the symbolic
		// clock (the native harness places them relative to the real clock, within 200 years)
		const century = int64(100 * 365 * 24 * 3600 * 1e9)
		x.assume(And(Le(IntC(-century), ts.NS), Le(ts.NS, IntC(century))))
		return s
	})
	reg("vrtTimeParse", func(x *Exec, fr *frame, a []Value) Value {
		ok, ns := x.parseTime(x.term(a[0]), x.term(a[1]))
		return TupleV{ok, ns}
	})

	// ---- key material
	reg("vrtCertText", func(x *Exec, fr *frame, a []Value) Value {
		s := x.sym(x.symName(a), SStr)
		x.setAttr(s, "certtext")
		// a text marked valid is plain base64 (natively: one of the fixed test certificates), without PEM armour
		valid := x.sym(s.S+".valid", SBool)
		nows := UF("nows", s)
		x.assume(Implies(valid, And(Not(Eq(s, StrC(""))), Not(SuffixOf(StrC("-----ENDCERTIFICATE-----"), nows)), Not(PrefixOf(StrC("-----BEGINCERTIFICATE-----"), nows)))))
		return s
	})
	reg("vrtIdPKeyPair", func(x *Exec, fr *frame, a []Value) Value {
		name := x.constStr(a[0], "key pair name")
		cert := x.sym(name+".cert", SStr)
		x.setAttr(cert, "certtext")
		x.setAttr(cert, "idpcert")
		kt := x.E.namedType("crypto/rsa", "PrivateKey")
		c := x.newCell(zeroValue(kt), kt, name+".key")
		id := x.sym(name+".keyid", SStr)
		x.privKeys[c] = id
		x.assume(Eq(Eq(UF("pubof", id), UF("pubkey", cert)), x.sym(name+".match", SBool)))
		x.assume(Implies(x.sym(name+".cert.valid", SBool), Not(Eq(cert, StrC("")))))
		return TupleV{&BytesV{T: cert}, &Pointer{Cell: c}}
	})
	e.Models[pkgPath+".vrtIdPOtherKeyPair"] = e.Models[pkgPath+".vrtIdPKeyPair"]
	reg("vrtIdPSigned", func(x *Exec, fr *frame, a []Value) Value {
		return IntC(int64(len(x.signed)))
	})
	// vrtRedirectSigValid(octets, alg, sig, certDER): a conformant verifier
	// accepts sig over octets under the published certificate
	reg("vrtRedirectSigValid", func(x *Exec, fr *frame, a []Value) Value {
		octets, alg, sig, cert := x.term(a[0]), x.term(a[1]), x.term(a[2]), x.term(a[3])
		r := FalseT
		for _, s := range x.signed {
			if s.kind == "redirect" && s.by == "idp" {
				r = Or(r, And(Eq(octets, s.octets), Eq(alg, s.alg), Eq(sig, s.sig), Eq(UF("pubkey", cert), s.keyID)))
			}
		}
		return r
	})
	// vrtEnvelopedValid(valuePtr, sigPtr, certDER): the enveloped signature
	// found in sig verifies over the value as it is on the wire
	reg("vrtEnvelopedValid", func(x *Exec, fr *frame, a []Value) Value {
		return And(x.envelopedValid(a[0], a[1], x.term(a[2])), Not(x.c14nSensitive(a[0])), Not(x.c14nXMLPrefixedAttr(a[0])))
	})
	reg("vrtC14NSensitive", func(x *Exec, fr *frame, a []Value) Value { return x.c14nSensitive(a[0]) })
	// the SP signs (C05/C07)
	reg("vrtSPSignRedirect", func(x *Exec, fr *frame, a []Value) Value {
		pk := x.pubKeyOf(a[0])
		octets, alg := x.term(a[1]), x.term(a[2])
		sig := UF("rsasign", pk.keyID, alg, octets)
		x.signed = append(x.signed, &signedTriple{kind: "redirect", by: "sp", keyID: pk.keyID, octets: octets, alg: alg, sig: sig})
		return sig
	})
	reg("vrtSPSignEnveloped", func(x *Exec, fr *frame, a []Value) Value {
		pk := x.pubKeyOf(a[0])
		doc := x.term(a[1])
		x.signed = append(x.signed, &signedTriple{kind: "enveloped", by: "sp", keyID: pk.keyID, octets: doc, alg: StrC("")})
		return doc
	})
	reg("vrtKeyKind", func(x *Exec, fr *frame, a []Value) Value {
		iv, _ := x.force(a[0]).(*IfaceV)
		if iv == nil || iv.T == nil {
			return IntC(-1)
		}
		return IntC(int64(x.pubKeyOf(a[0]).keyType))
	})
}

func (x *Exec) pubKeyOf(v Value) *certInfo {
	iv, _ := x.force(v).(*IfaceV)
	if iv == nil || iv.T == nil {
		panic(abortf("harness: nil public key"))
	}
	n, ok := iv.V.(*Native)
	if !ok || n.Kind != "pubkey" {
		panic(abortf("harness: not a public key from a parsed certificate"))
	}
	return n.Data.(*certInfo)
}

type queryParam struct {
	key string
	val *Term
}

// splitQuery splits k1=v1&k2=v2... where keys are literal text and each value
// is exactly one escaped term (or literal text without '&').
func splitQuery(q *Term) ([]queryParam, bool) {
	var out []queryParam
	ps := flatten(q)
	i := 0
	first := true
	for i < len(ps) {
		p := ps[i]
		if !p.IsConst() {
			return nil, false
		}
		lit := p.S
		// a literal may contain several complete pairs followed by "key="
		for {
			if !first {
				if !strings.HasPrefix(lit, "&") {
					return nil, false
				}
				lit = lit[1:]
			}
			first = false
			eq := strings.IndexByte(lit, '=')
			if eq < 0 {
				return nil, false
			}
			key := lit[:eq]
			rest := lit[eq+1:]
			if amp := strings.IndexByte(rest, '&'); amp >= 0 {
				out = append(out, queryParam{key, StrC(rest[:amp])})
				lit = rest[amp:]
				continue
			}
			if rest != "" {
				// literal value running to the end of this piece
				if i+1 < len(ps) {
					return nil, false
				}
				out = append(out, queryParam{key, StrC(rest)})
				i++
				break
			}
			// value is the next piece, which must be an escaped term
			if i+1 >= len(ps) {
				out = append(out, queryParam{key, StrC("")})
				i++
				break
			}
			v := ps[i+1]
			if !(v.Op == "uf" && escapeUF[v.S]) {
				return nil, false
			}
			out = append(out, queryParam{key, v})
			i += 2
			break
		}
	}
	return out, true
}

// observe classifies what was written to the response writer.
func (x *Exec) observe(w *respWriter) Value {
	rt := x.harnessType("vrtReply")
	f := map[string]Value{}
	code := w.code
	if !w.wroteHeader {
		code = IntC(200)
	}
	f["Code"] = code
	body := Concat(w.body...)
	f["Body"] = body
	nXML, nForm, nJSON := 0, 0, 0
	// a page passed through a formatting function as the format string is the page only if it has no '%'
	fmtPage := TrueT
	for i, p := range w.body {
		if p.Op == "uf" && p.S == "fmtverbs" && len(p.Args) == 1 && p.Args[0].Op == "sym" {
			if _, ok := x.renders[p.Args[0].S]; ok {
				fmtPage = And(fmtPage, Eq(p, p.Args[0]))
				w.body[i] = p.Args[0]
			}
		}
	}
	for _, p := range w.body {
		if p.Op == "sym" {
			if tk, ok := x.xmlTokens[p.S]; ok {
				if tk.Kind == "xml" {
					nXML++
				} else {
					nJSON++
				}
			}
			if _, ok := x.renders[p.S]; ok {
				nForm++
			}
		}
	}
	f["Docs"] = IntC(int64(nXML))
	f["Forms"] = IntC(int64(nForm))
	f["WriteHeaderCalls"] = IntC(int64(w.writeHeaderCalls))
	hasLoc, loc := w.header(x, "Location")
	hasCT, ct := w.header(x, "Content-Type")
	hasNS, _ := w.header(x, "X-Content-Type-Options")
	hasCD, cd := w.header(x, "Content-Disposition")
	f["ContentType"] = Ite(hasCT, ct, StrC(""))
	f["ContentDisposition"] = Ite(hasCD, cd, StrC(""))
	kind := "other"
	is3xx := And(Le(IntC(300), code), Lt(code, IntC(400)))
	switch {
	case x.Branch(And(hasLoc, is3xx)):
		kind = "redirect"
		f["Location"] = loc
	case x.Branch(And(hasCT, Eq(ct, StrC("text/plain; charset=utf-8")), hasNS, Le(IntC(400), code))):
		kind = "error"
		f["Text"] = TrimSuffix(body, StrC("\n"))
	case len(w.body) == 0:
		kind = "empty"
	case len(w.body) == 1 && nForm == 1:
		kind = "form"
		ri := x.renders[w.body[0].S]
		okT := ri.tmpl.text != nil && ri.tmpl.text.IsConst()
		var action, relay, resp string
		okTerm := fmtPage
		if ri.tmpl.text != nil && ri.tmpl.text.IsConst() {
			var shapeOK bool
			action, relay, resp, shapeOK = templateShape(ri.tmpl.text.S)
			okT = okT && shapeOK
		}
		dv := x.force(ri.data)
		dt := ri.dataT
		if p, ok := dv.(*Pointer); ok && !p.IsNil() {
			dv = x.load(p)
			dt = dt.Underlying().(*types.Pointer).Elem()
		}
		sv, isStruct := dv.(*StructV)
		get := func(field string) Value {
			if !isStruct || field == "" {
				okT = false
				return StrC("")
			}
			i := structFieldIndex(dt, field)
			if i < 0 {
				okT = false
				return StrC("")
			}
			ft := dt.Underlying().(*types.Struct).Field(i).Type()
			if !isPlainString(ft) {
				// a bypass type (template.HTML, template.URL ...) or a non-string reaches the sink.
				// For a string-kinded bypass type the page differs from the fixed template exactly
				// on values the escaper would have changed; the violation is stated for one such
				// family of values so that the model the solver returns shows the difference natively.
				if t, ok := sv.F[i].(*Term); ok && t.Sort == SStr {
					tn := ""
					if n, ok := ft.(*types.Named); ok {
						tn = n.Obj().Name()
					}
					switch tn {
					case "URL":
						okTerm = And(okTerm, Not(PrefixOf(StrC("javascript:"), t)))
					default:
						okTerm = And(okTerm, Not(Contains(t, StrC("<a>&amp;"))))
					}
					return t
				}
				okT = false
				return StrC("")
			}
			return sv.F[i]
		}
		f["Action"] = get(action)
		f["RelayState"] = get(relay)
		f["SAMLResponse"] = get(resp)
		if ri.tmpl.pkg != "html/template" {
			// not html/template: nothing is escaped, so the page is the fixed template
			// only for values without markup characters (stated on one such character
			// so that the replay shows the difference)
			if rt, ok := f["RelayState"].(*Term); ok && rt.Sort == SStr {
				okTerm = And(okTerm, Not(Contains(rt, StrC("\""))))
			} else {
				okT = false
			}
		}
		if isStruct && len(sv.F) != 3 {
			okT = false
		}
		f["TemplateOK"] = And(BoolC(okT), okTerm)
	case len(w.body) == 2 && nXML == 1 && w.body[0].IsConst() && w.body[0].S == xmlHeader:
		kind = "xml"
	case len(w.body) == 2 && nJSON == 1 && w.body[1].IsConst() && w.body[1].S == "\n":
		kind = "json"
	case len(w.body) == 1 && w.body[0].Op == "uf" && w.body[0].S == "pem":
		kind = "pem"
		f["PemType"] = w.body[0].Args[0]
		f["PemBytes"] = w.body[0].Args[1]
	}
	f["Kind"] = StrC(kind)
	return x.makeStruct(rt, f)
}

// Contract of github.com/amdonov/xmlsig's canonicalize (read from its source: the
// document is re-read with an xml.Decoder, which resolves entities, and character
// data and attribute values are written back as they are): the octets it digests
// equal the exclusive-C14N octets of the document on the wire unless some
// character data contains one of & < > CR or some attribute value one of
// & < " TAB LF CR - the characters C14N writes as references. c14nSensitive is
// that condition over the string leaves of the signed value (its Signature
// member, which xmlsig creates afterwards from base64 and URIs, excluded).
const reC14NText = `(re.++ re.all (re.union (str.to_re "&") (str.to_re "<") (str.to_re ">") (str.to_re "\u{d}")) re.all)`
const reC14NAttr = `(re.++ re.all (re.union (str.to_re "&") (str.to_re "<") (str.to_re "\u{22}") (str.to_re "\u{9}") (str.to_re "\u{a}") (str.to_re "\u{d}")) re.all)`

func (x *Exec) c14nSensitive(value Value) *Term {
	v := x.force(value)
	if iv, ok := v.(*IfaceV); ok && iv.T != nil {
		v = x.force(iv.V)
	}
	vp, ok := v.(*Pointer)
	if !ok || vp.IsNil() {
		return FalseT
	}
	vt := typeAt(vp.Cell.Typ, vp.Path)
	if vt == nil {
		panic(abortf("vrtC14NSensitive: untyped object"))
	}
	r := FalseT
	var walk func(v Value, t types.Type, attr bool, top bool, depth int)
	walk = func(v Value, t types.Type, attr bool, top bool, depth int) {
		if depth > 40 || v == nil {
			return
		}
		if n, ok := t.(*types.Named); ok && n.Obj().Pkg() != nil && n.Obj().Pkg().Path() == "encoding/xml" && n.Obj().Name() == "Name" {
			return
		}
		switch a := x.force(v).(type) {
		case *Term:
			if a.Sort == SStr {
				if a.IsConst() {
					bad := "&<>\r"
					if attr {
						bad = "&<\"\t\n\r"
					}
					if strings.ContainsAny(a.S, bad) {
						r = TrueT
					}
					return
				}
				// "contains one of the characters" distributes over concatenation; pieces
				// whose alphabet is known structurally (uuids, formatted instants) never do
				for _, p := range flatten(a) {
					switch {
					case p.IsConst():
						bad := "&<>\r"
						if attr {
							bad = "&<\"\t\n\r"
						}
						if strings.ContainsAny(p.S, bad) {
							r = TrueT
						}
					case p.Op == "sym" && (x.attr(p, "uuid") || x.timeStrs[p.S] != nil):
					case p.Op == "uf" && (strings.HasPrefix(p.S, "b64") || p.S == "timefmt" || p.S == "itoa"):
					case attr:
						r = Or(r, InRe(p, reC14NAttr))
					default:
						r = Or(r, InRe(p, reC14NText))
					}
				}
			}
		case *Pointer:
			if !a.IsNil() {
				if pt, ok := t.Underlying().(*types.Pointer); ok {
					walk(x.load(a), pt.Elem(), attr, false, depth+1)
				}
			}
		case *StructV:
			st, ok := t.Underlying().(*types.Struct)
			if !ok {
				return
			}
			for i := 0; i < st.NumFields() && i < len(a.F); i++ {
				tag := st.Tag(i)
				if strings.Contains(tag, `xml:"-"`) || strings.Contains(tag, ",innerxml") || strings.Contains(tag, ",comment") {
					continue
				}
				if top && st.Field(i).Name() == "Signature" {
					continue
				}
				walk(a.F[i], st.Field(i).Type(), strings.Contains(tag, ",attr"), false, depth+1)
			}
		case *SliceV:
			if sl, ok := t.Underlying().(*types.Slice); ok {
				for _, e := range x.sliceElems(a) {
					walk(e, sl.Elem(), attr, false, depth+1)
				}
			}
		}
	}
	walk(x.load(vp), vt, false, true, 0)
	return r
}

// Second part of the xmlsig contract (same source): an attribute in a namespace is
// written with the prefix declared for that namespace *on the same element*;
// encoding/xml declares one for every namespace except the predefined xml
// namespace, so an emitted attribute tagged with
// "http://www.w3.org/XML/1998/namespace" is digested as ":name" where C14N has
// "xml:name". c14nXMLPrefixedAttr: the signed value has such an attribute on the wire.
func (x *Exec) c14nXMLPrefixedAttr(value Value) *Term {
	v := x.force(value)
	if iv, ok := v.(*IfaceV); ok && iv.T != nil {
		v = x.force(iv.V)
	}
	vp, ok := v.(*Pointer)
	if !ok || vp.IsNil() {
		return FalseT
	}
	vt := typeAt(vp.Cell.Typ, vp.Path)
	if vt == nil {
		return FalseT
	}
	r := FalseT
	var walk func(v Value, t types.Type, top bool, depth int)
	walk = func(v Value, t types.Type, top bool, depth int) {
		if depth > 40 || v == nil {
			return
		}
		switch a := x.force(v).(type) {
		case *Pointer:
			if !a.IsNil() {
				if pt, ok := t.Underlying().(*types.Pointer); ok {
					walk(x.load(a), pt.Elem(), false, depth+1)
				}
			}
		case *StructV:
			st, ok := t.Underlying().(*types.Struct)
			if !ok {
				return
			}
			for i := 0; i < st.NumFields() && i < len(a.F); i++ {
				tag := st.Tag(i)
				if top && st.Field(i).Name() == "Signature" {
					continue
				}
				if strings.Contains(tag, `xml:"http://www.w3.org/XML/1998/namespace `) && strings.Contains(tag, ",attr") {
					if ft, ok := a.F[i].(*Term); ok && ft.Sort == SStr && strings.Contains(tag, ",omitempty") {
						r = Or(r, Not(Eq(ft, StrC(""))))
					} else {
						r = TrueT
					}
					continue
				}
				walk(a.F[i], st.Field(i).Type(), false, depth+1)
			}
		case *SliceV:
			if sl, ok := t.Underlying().(*types.Slice); ok {
				for _, e := range x.sliceElems(a) {
					walk(e, sl.Elem(), false, depth+1)
				}
			}
		}
	}
	walk(x.load(vp), vt, true, 0)
	return r
}

// envelopedValid: does the signature verify over the value on the wire?
// value: pointer to the struct carrying the Signature field; sig: the
// *xml_dsig.SignatureType found in it.
func (x *Exec) envelopedValid(value, sig Value, cert *Term) *Term {
	unwrap := func(v Value) Value {
		v = x.force(v)
		if iv, ok := v.(*IfaceV); ok && iv.T != nil {
			return x.force(iv.V)
		}
		return v
	}
	value, sig = unwrap(value), unwrap(sig)
	sp, ok := x.force(sig).(*Pointer)
	if !ok || sp.IsNil() {
		return FalseT
	}
	vp, ok := x.force(value).(*Pointer)
	if !ok || vp.IsNil() {
		return FalseT
	}
	// the value with its Signature member removed
	sv, ok := x.load(vp).(*StructV)
	if !ok {
		panic(abortf("vrtEnvelopedValid: value is %T", x.load(vp)))
	}
	vt := typeAt(vp.Cell.Typ, vp.Path)
	if vt == nil {
		panic(abortf("vrtEnvelopedValid: untyped object"))
	}
	i := structFieldIndex(vt, "Signature")
	if i < 0 {
		panic(abortf("vrtEnvelopedValid: no Signature member"))
	}
	stripped := append([]Value{}, sv.F...)
	stripped[i] = NilPtr
	key := x.snapKey(&StructV{F: stripped}, 0)
	sigT := typeAt(sp.Cell.Typ, sp.Path)
	sigV, _ := x.load(sp).(*StructV)
	if sigV == nil || sigT == nil {
		panic(abortf("vrtEnvelopedValid: signature object shape"))
	}
	getPath := func(path ...string) Value {
		var v Value = sigV
		t := sigT
		for _, n := range path {
			idx := x.fieldIdx(t, n)
			v = x.force(v.(*StructV).F[idx])
			t = t.Underlying().(*types.Struct).Field(idx).Type()
			if p, ok := v.(*Pointer); ok {
				if p.IsNil() {
					return nil
				}
				v = x.load(p)
				t = t.Underlying().(*types.Pointer).Elem()
			}
		}
		return v
	}
	r := FalseT
	for _, s := range x.signed {
		if s.kind != "enveloped" || s.by != "idp" {
			continue
		}
		if s.snap != key {
			if x.E.Debug {
				fmt.Fprintf(os.Stderr, "envelopedValid: snapshot differs\n signed: %s\n wire:   %s\n", s.snap, key)
			}
			continue // something changed after signing (or another value was signed)
		}
		// the wire copy must carry xmlsig's SignedInfo unchanged
		conds := []*Term{Eq(UF("pubkey", cert), s.keyID)}
		sval, _ := getPath("SignatureValue", "Text").(*Term)
		if sval == nil {
			continue
		}
		conds = append(conds, Eq(sval, s.sig))
		if t, _ := getPath("SignedInfo", "SignatureMethod", "Algorithm").(*Term); t != nil {
			conds = append(conds, Eq(t, s.alg))
		}
		if t, _ := getPath("SignedInfo", "CanonicalizationMethod", "Algorithm").(*Term); t != nil {
			conds = append(conds, Eq(t, StrC("http://www.w3.org/2001/10/xml-exc-c14n#")))
		}
		refs, _ := getPath("SignedInfo", "Reference").(*SliceV)
		if refs == nil || refs.Len != 1 {
			continue
		}
		ref := x.sliceElems(refs)[0].(*StructV)
		refT := sigT.Underlying().(*types.Struct).Field(x.fieldIdx(sigT, "SignedInfo")).Type()
		refT = refT.Underlying().(*types.Struct).Field(x.fieldIdx(refT, "Reference")).Type().Underlying().(*types.Slice).Elem()
		rf := func(n string) Value { return x.force(ref.F[x.fieldIdx(refT, n)]) }
		conds = append(conds, Eq(x.term(rf("URI")), s.uri))
		conds = append(conds, Eq(x.term(rf("DigestValue")), UF("b64", UF("digest", s.dig, s.octets))))
		dm := rf("DigestMethod").(*StructV)
		dmT := refT.Underlying().(*types.Struct).Field(x.fieldIdx(refT, "DigestMethod")).Type()
		conds = append(conds, Eq(x.term(dm.F[x.fieldIdx(dmT, "Algorithm")]), s.dig))
		tp, _ := rf("Transforms").(*Pointer)
		if tp == nil || tp.IsNil() {
			continue
		}
		tsT := refT.Underlying().(*types.Struct).Field(x.fieldIdx(refT, "Transforms")).Type().Underlying().(*types.Pointer).Elem()
		tsl := x.sliceElems(x.load(tp).(*StructV).F[x.fieldIdx(tsT, "Transform")])
		if len(tsl) != 2 {
			continue
		}
		trT := tsT.Underlying().(*types.Struct).Field(x.fieldIdx(tsT, "Transform")).Type().Underlying().(*types.Slice).Elem()
		conds = append(conds, Eq(x.term(tsl[0].(*StructV).F[x.fieldIdx(trT, "Algorithm")]), StrC("http://www.w3.org/2000/09/xmldsig#enveloped-signature")))
		conds = append(conds, Eq(x.term(tsl[1].(*StructV).F[x.fieldIdx(trT, "Algorithm")]), StrC("http://www.w3.org/2001/10/xml-exc-c14n#")))
		r = Or(r, And(conds...))
	}
	if x.E.Debug {
		fmt.Fprintf(os.Stderr, "envelopedValid: %d signed records, result %s\n", len(x.signed), trunc(r.Key(), 2000))
	}
	return r
}

var _ = fmt.Sprintf

// typeAt follows a field/element path through a type.
func typeAt(t types.Type, path []int) types.Type {
	for _, i := range path {
		if t == nil {
			return nil
		}
		switch u := t.Underlying().(type) {
		case *types.Struct:
			t = u.Field(i).Type()
		case *types.Array:
			t = u.Elem()
		default:
			return nil
		}
	}
	return t
}
