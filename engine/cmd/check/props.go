package main

import "time"

type propSpec struct {
	ID                string
	Harnesses         []string
	HarnessesThorough []string // additional harnesses of the thorough tier
	Covers            []string
	Assumptions       []string
	BudgetQuick       time.Duration
	BudgetThorough    time.Duration
	CVC5First         bool
}

var common = []string{
	"storage contract: a lookup that returns a nil error returns a non-nil record; every storage call may fail (where the profile opens faults); service providers are built by serviceprovider.NewServiceProvider",
	"provider built by NewProvider with a static https issuer and default endpoints",
	"registered consumer / logout URLs are absolute (https://...) and none, followed by '?', is the beginning of another",
	"contracts of DESIGN §3.6 for code outside the module: encoding/xml (serialisation is an injective function of the value snapshot; Level S decode), html/template (usage level), flate, base64, url escaping (uninterpreted with inverse axioms), time (uninterpreted format/parse pair, monotonic clock), uuid (fresh, pairwise distinct), idealised signatures and hashes, gorilla/mux as a route table, CORS passes non-OPTIONS requests through",
	"http.ResponseWriter never fails; request methods other than OPTIONS; request paths are clean",
	"bound profiles (DESIGN §3.3): each harness opens some input dimensions and pins the others to nominal values; the product of all dimensions at once is outside the claim",
}

var cbCovers = []string{"callback.success", "callback.failure-message", "callback.http-error", "callback.form", "callback.redirect"}
var ssoCovers = []string{"sso.accepted", "sso.rejected"}

func mk(id string, quick []string, thorough []string, covers []string, extra ...string) *propSpec {
	return &propSpec{ID: id, Harnesses: quick, HarnessesThorough: thorough, Covers: covers, Assumptions: append(append([]string{}, common...), extra...),
		BudgetQuick: 8 * time.Minute, BudgetThorough: 45 * time.Minute}
}

var ssoAll = []string{"HarnessSSODecode", "HarnessSSOSig", "HarnessSSOACS", "HarnessSSOContent", "HarnessSSOFaults", "HarnessSSOACSFaults"}

var specs = map[string]*propSpec{
	"C01": mk("C01", []string{"HarnessCallback"}, nil, append(append([]string{}, cbCovers...), "callback.fault"),
		"stored request: binding POST, Redirect or any other string; every other field an arbitrary string; user: e-mail and user name optional, <= 1 custom attribute (profile)"),
	"C02": mk("C02", []string{"HarnessCallback", "HarnessSSOACS", "HarnessSSODecode", "HarnessLogout"}, []string{"HarnessSSOACSContent", "HarnessSSOContent"},
		append(append([]string{}, cbCovers...), "sso.accepted", "sso.rejected", "logout.success", "logout.failure"),
		"ACS entries <= 2 (quick) / <= 3 (thorough), SingleLogoutService entries <= 2 / <= 3"),
	"C03": mk("C03", []string{"HarnessCallback"}, nil, cbCovers,
		"no storage faults (profile: the property talks about Success replies); custom attributes <= 1 / <= 2, values per attribute <= 2 / <= 3; quick: only e-mail and user name optional, thorough: every standard attribute optional",
		"attribute statements compared as sets of (Name, NameFormat, FriendlyName, value list) with equal cardinality"),
	"C04": mk("C04", []string{"HarnessCallback", "HarnessAttrQuery", "HarnessMetadata"}, nil, []string{"C04.enveloped-success", "C04.redirect-success", "C04.attrquery-success", "C04.signed-metadata"},
		"composition level (DESIGN §5 C04): what is signed is what is sent; agreement of xmlsig's canonical form with exclusive C14N of the wire bytes, and RSA/SHA themselves, are outside the claim",
		"stored requests with binding POST or Redirect, any consumer URL"),
	"C05": mk("C05", []string{"HarnessSSOSig", "HarnessSSOSigned"}, []string{"HarnessSSOPlacementSig"}, append(append([]string{}, ssoCovers...), "C05.signed-request-accepted"),
		"idealised signatures: a signature verifies iff the simulated SP produced it over the same octets, algorithm and key; HarnessSSOSig / HarnessSSOPlacementSig: the SP signs nothing, so every signature value is a forgery; HarnessSSOSigned: the SP signed exactly one Redirect-binding request (Go-style percent-encoding), the attacker delivers arbitrary parameter values",
		"KeyDescriptor <= 1 / <= 2, X509Data <= 1 / <= 2"),
	"C06": mk("C06", []string{"HarnessSSODecode", "HarnessSSOContent"}, []string{"HarnessSSOACSContent"}, ssoCovers),
	"C07": mk("C07", []string{"HarnessLogoutConformant", "HarnessAttrQueryConformant", "HarnessSSOConformant", "HarnessSSOSignedEncodingStyles"}, nil,
		[]string{"C07.logout-redirect-binding", "C07.logout-post-binding", "C07.attrquery-with-destination", "C07.sso-redirect-binding", "C07.sso-post-binding", "C07.sso-redirect-binding-signed", "C07.sso-redirect-binding-signed-other-escape-style"},
		"conformant = schema-valid at struct level (Level S), unsigned where nothing requires signing, or (AuthnRequest, Redirect binding) signed by the registered RSA key over Go-style percent-encoded octets; byte-level serialisation variety, other percent-encoding styles and enveloped signatures are outside this check"),
	"C08": mk("C08", ssoAll, []string{"HarnessSSOACSContent"}, ssoCovers),
	"C09": mk("C09", append(append([]string{}, ssoAll...), "HarnessCallback", "HarnessLogout", "HarnessAttrQuery", "HarnessMetadata", "HarnessRegistration"), nil, nil,
		"panics inside libraries on malformed bytes are outside the claim (Level S: every type-consistent decoded struct)"),
	"C10": mk("C10", []string{"HarnessCallback", "HarnessSSOFaults", "HarnessSSOACSFaults", "HarnessLogout", "HarnessAttrQuery", "HarnessMetadata"}, nil, []string{"callback.fault"}),
	"C11": mk("C11", []string{"HarnessMetadata", "HarnessC11Flags"}, nil, []string{"metadata.served"}),
	"C12": mk("C12", []string{"HarnessAttrQuery"}, nil, []string{"attrquery.success", "attrquery.error"},
		"requested attributes <= 1 / <= 2; user: e-mail, user name and <= 1 / <= 2 custom attributes (profile); the simulated requester signs nothing"),
	"C13": mk("C13", []string{"HarnessLogout"}, nil, []string{"logout.success", "logout.failure"}),
	"C14": mk("C14", []string{"HarnessC14"}, nil, []string{"C14.inflated", "C14.padded-request-accepted-when-small"},
		"payload: padding only, or a complete conformant AuthnRequest / LogoutRequest followed by a padding comment; framing: raw DEFLATE, zlib or gzip; inflated length 0..2^40 (an integer, not a string length)"),
	"C15": mk("C15", append(append([]string{}, ssoAll...), "HarnessCallback", "HarnessLogout", "HarnessAttrQuery", "HarnessMetadata"), nil, nil,
		"schedules are not encoded: the property is decided through the reduction of DESIGN §3.7 (no write to provider-lifetime state on any path; replies are terms over the request's own inputs); goroutine-safety of html/template, uuid, crypto/rand and the storage is trusted"),
	"C16": mk("C16", []string{"HarnessC16", "HarnessSSOACS"}, nil, []string{"C16.empty-list", "C16.by-requested-binding", "C16.by-isDefault", "C16.by-lowest-index"},
		"bound: ACS list length <= 3 (quick) / <= 6 (thorough) for the selection function, <= 2 / <= 3 end to end",
		"registered metadata is schema-valid: Binding and Location non-empty, index a canonical xs:unsignedShort, isDefault in {absent,true,false,1,0}",
		"strconv.Atoi/Itoa by contract (syntax, sign, range exact over mathematical integers)"),
	"C17": mk("C17", []string{"HarnessCallback", "HarnessSSODecode", "HarnessSSOACS", "HarnessLogout"}, nil, []string{"callback.form"},
		"usage level: html/template's escaping itself is the library's contract and is not encoded"),
	"C18": mk("C18", []string{"HarnessC18", "HarnessCallback", "HarnessSSODecode", "HarnessSSOACS", "HarnessLogout", "HarnessAttrQuery", "HarnessMetadata"}, nil,
		[]string{"C18.roundtrip", "C18.unknown-encoding", "callback.form", "callback.redirect", "logout.success", "attrquery.success", "metadata.served"},
		"character-level escaping and flate's codec are library contracts; routes: every reply is one document made by a library encoder and the message in it decodes with the library's own decoder (struct-level round trip)"),
	"C19": mk("C19", []string{"HarnessC19Static", "HarnessC19Dynamic"}, nil, []string{"C19.static-accepted", "C19.dynamic"}),
	"C20": {
		ID:        "C20",
		Harnesses: []string{"HarnessC20"},
		Covers:    []string{"C20.all-pass", "C20.some-step-fails"},
		Assumptions: []string{
			"bound: chain length <= 3 (quick) / <= 4 (thorough); longer chains are outside the claim of the direct harness",
			"step parameters: strings unbounded, length bounds in [-1,3], value lists of length 0..2",
			"logging (github.com/zitadel/logging) has no effect",
		},
		BudgetQuick: 5 * time.Minute, BudgetThorough: 30 * time.Minute,
	},
}
