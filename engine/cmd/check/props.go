package main

import "time"

type propSpec struct {
	ID             string
	Harnesses      []string
	Covers         []string
	Assumptions    []string
	BudgetQuick    time.Duration
	BudgetThorough time.Duration
	CVC5First      bool
}

var specs = map[string]*propSpec{
	"C20": {
		ID:        "C20",
		Harnesses: []string{"HarnessC20"},
		Covers:    []string{"C20.all-pass", "C20.some-step-fails"},
		Assumptions: []string{
			"bound: chain length <= 3 (quick) / <= 4 (thorough); longer chains are outside the claim of the direct harness",
			"step parameters: strings unbounded, length bounds in [-1,3], value lists of length 0..2",
			"logging (github.com/zitadel/logging) has no effect",
		},
		BudgetQuick: 5 * time.Minute, BudgetThorough: 30 * time.Minute,
	},
}

func init() {
	specs["C16"] = &propSpec{
		ID:        "C16",
		Harnesses: []string{"HarnessC16"},
		Covers:    []string{"C16.empty-list", "C16.by-requested-binding", "C16.by-isDefault", "C16.by-lowest-index"},
		Assumptions: []string{
			"bound: ACS list length <= 3 (quick) / <= 6 (thorough)",
			"registered metadata is schema-valid: Binding and Location non-empty, index a canonical xs:unsignedShort (no sign, no leading zeros, <= 65535), isDefault in {absent,true,false,1,0}",
			"strconv.Atoi by contract (syntax, sign, range exact over mathematical integers)",
		},
		BudgetQuick: 5 * time.Minute, BudgetThorough: 30 * time.Minute,
	}
}

func init() {
	cb := []string{"callback.success", "callback.failure-message", "callback.http-error", "callback.form", "callback.redirect", "callback.fault"}
	common := []string{
		"storage contract: a lookup that returns a nil error returns a non-nil record; every storage call may fail",
		"stored request: binding POST, Redirect or any other string; every other field an arbitrary string",
		"provider built by NewProvider with a static https issuer and default endpoints; signature algorithm and WantAuthRequestsSigned arbitrary strings",
		"encoding/xml, html/template, flate, base64, url escaping, time formatting, uuid: contracts of DESIGN §3.6 (serialisation is an injective function of the value; escaping is the library's)",
		"http.ResponseWriter never fails; request methods other than OPTIONS",
	}
	for _, id := range []string{"C01", "C03"} {
		specs[id] = &propSpec{ID: id, Harnesses: []string{"HarnessCallback"}, Covers: cb, Assumptions: common,
			BudgetQuick: 8 * time.Minute, BudgetThorough: 40 * time.Minute}
	}
}

func init() {
	specs["C04"] = &propSpec{ID: "C04", Harnesses: []string{"HarnessCallback"}, Covers: []string{"C04.enveloped-success", "C04.redirect-success"},
		Assumptions: []string{"see DESIGN §5 C04: composition level; xmlsig-vs-C14N agreement and RSA/SHA are outside the claim"},
		BudgetQuick: 8 * time.Minute, BudgetThorough: 40 * time.Minute, CVC5First: true}
}

func init() {
	for _, id := range []string{"C05", "C06", "C08"} {
		specs[id] = &propSpec{ID: id, Harnesses: []string{"HarnessSSODecode", "HarnessSSOSig", "HarnessSSOACS", "HarnessSSOContent", "HarnessSSOFaults"}, Covers: []string{"sso.accepted", "sso.rejected"},
			BudgetQuick: 8 * time.Minute, BudgetThorough: 40 * time.Minute}
	}
}
