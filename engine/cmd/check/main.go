package main

import (
	"fmt"
	"golang.org/x/tools/go/packages"
	"golang.org/x/tools/go/ssa"
	"golang.org/x/tools/go/ssa/ssautil"
)

func main() {
	cfg := &packages.Config{Mode: packages.LoadAllSyntax, Dir: "/repo"}
	pkgs, err := packages.Load(cfg, "./pkg/provider")
	fmt.Println(len(pkgs), err)
	prog, _ := ssautil.AllPackages(pkgs, ssa.InstantiateGenerics)
	prog.Build()
	fmt.Println(len(prog.AllPackages()))
}
