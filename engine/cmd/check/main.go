// Command check decides one property of /verif/properties.jsonl for /repo's
// current working tree by symbolic execution of the real code (see DESIGN.md).
package main

import (
	"crypto/sha256"
	"encoding/json"
	"flag"
	"fmt"
	"os"
	"path/filepath"
	"sort"
	"strconv"
	"strings"
	"time"

	"symgo/sym"
)

var verifDir = sym.VerifDir

type knownFinding struct {
	Property string
	Finding  string
	Text     string
}

func loadKnown() []knownFinding {
	data, err := os.ReadFile(filepath.Join(verifDir, "known_findings.txt"))
	if err != nil {
		return nil
	}
	var out []knownFinding
	for _, l := range strings.Split(string(data), "\n") {
		l = strings.TrimSpace(l)
		if !strings.HasPrefix(l, "known:") {
			continue
		}
		rest := strings.TrimSpace(l[len("known:"):])
		k := knownFinding{}
		for rest != "" {
			if strings.HasPrefix(rest, "property=") {
				f := strings.Fields(rest)[0]
				k.Property = f[len("property="):]
				rest = strings.TrimSpace(rest[len(f):])
				continue
			}
			if strings.HasPrefix(rest, "finding=") {
				r := rest[len("finding="):]
				if strings.HasPrefix(r, `"`) {
					j := strings.Index(r[1:], `"`)
					if j < 0 {
						break
					}
					k.Finding = r[1 : 1+j]
					rest = strings.TrimSpace(r[j+2:])
				} else {
					f := strings.Fields(r)[0]
					k.Finding = f
					rest = strings.TrimSpace(r[len(f):])
				}
				continue
			}
			k.Text = rest
			break
		}
		if k.Property != "" && k.Finding != "" {
			out = append(out, k)
		}
	}
	return out
}

func main() {
	tier := flag.String("tier", "quick", "quick|thorough")
	replay := flag.String("replay", "", "replay a recorded violation directory")
	harness := flag.String("harness", "", "debug: explore a single harness function")
	debug := flag.Bool("debug", false, "debug output")
	workers := flag.Int("workers", 16, "worker count")
	budgetS := flag.Int("budget", 600, "debug: wall-clock budget in seconds for -harness")
	// allow "check C20 --tier quick"
	args := os.Args[1:]
	prop := ""
	if len(args) > 0 && !strings.HasPrefix(args[0], "-") {
		prop = args[0]
		args = args[1:]
	}
	flag.CommandLine.Parse(args)
	if t := os.Getenv("VERIF_TIER"); t != "" && !flagSet("tier") {
		*tier = t
	}
	seed := 0
	if s := os.Getenv("VERIF_SEED"); s != "" {
		seed, _ = strconv.Atoi(s)
	}

	if *replay != "" {
		os.Exit(doReplay(prop, *replay))
	}

	e, err := sym.LoadEngine(*tier)
	if err != nil {
		fmt.Println("BUILD-FAILURE: /repo or the harness does not compile:", err)
		os.Exit(2)
	}
	e.Debug = *debug
	if *harness != "" {
		e.Prop = prop
		rep := e.Explore(*harness, *workers, []string{"cvc5", "z3-new"}, 20000, time.Duration(*budgetS)*time.Second, 10)
		printReport(rep)
		return
	}
	spec, ok := specs[prop]
	if !ok {
		fmt.Println("unknown property", prop)
		os.Exit(2)
	}
	os.Exit(runProperty(e, spec, *tier, seed, *workers))
}

func flagSet(name string) bool {
	set := false
	flag.Visit(func(f *flag.Flag) {
		if f.Name == name {
			set = true
		}
	})
	return set
}

func printReport(rep *sym.Report) {
	fmt.Printf("harness=%s paths=%d infeasible=%d branches=%d asserts=%d (trivial %d) wall=%s timedout=%v\n", rep.Harness, rep.Paths, rep.Infeasible, rep.Branches, rep.Asserts, rep.AssertsTriv, rep.Wall, rep.TimedOut)
	for k, v := range rep.Inconclusive {
		fmt.Println("  INCONCLUSIVE", v, k)
	}
	for _, v := range rep.Violations {
		fmt.Println("  CANDIDATE", v.ID, "region="+v.Region, "site="+v.Site, v.Model)
	}
	var cs []string
	for c := range rep.Covers {
		cs = append(cs, c)
	}
	sort.Strings(cs)
	fmt.Println("  covers", cs)
	for k, n := range rep.SharedWrites {
		fmt.Println("  SHARED-WRITE", n, k)
	}
	fmt.Println("  samples", len(rep.Samples))
	if len(rep.ForkSites) > 0 {
		type kv struct {
			k string
			n int
		}
		var fs []kv
		for k, n := range rep.ForkSites {
			fs = append(fs, kv{k, n})
		}
		sort.Slice(fs, func(i, j int) bool { return fs[i].n > fs[j].n })
		for i, f := range fs {
			if i >= 40 {
				break
			}
			fmt.Printf("  FORKS %6d %s\n", f.n, f.k)
		}
	}
}

type candidate struct {
	harness string
	v       *sym.Violation
}

func runProperty(e *sym.Engine, spec *propSpec, tier string, seed int, workers int) int {
	start := time.Now()
	e.Prop = spec.ID
	for _, k := range loadKnown() {
		if k.Property == spec.ID {
			e.Known[k.Finding] = true
		}
	}
	budget := spec.BudgetQuick
	samples := 12
	queryMs := 20000
	solvers := []string{"cvc5", "z3-new"}
	if spec.CVC5First {
		solvers = []string{"cvc5", "z3-new"}
	}
	if tier == "thorough" {
		budget = spec.BudgetThorough
		samples = 60
		queryMs = 120000
	}
	var reports []*sym.Report
	harnesses := append([]string{}, spec.Harnesses...)
	if tier == "thorough" {
		harnesses = append(harnesses, spec.HarnessesThorough...)
	}
	// the wall-clock budget is shared: each harness gets what is left
	deadline := time.Now().Add(budget)
	for _, h := range harnesses {
		budget = time.Until(deadline)
		if budget < 20*time.Second {
			budget = 20 * time.Second
		}
		rep := e.Explore(h, workers, solvers, queryMs, budget, samples)
		printReport(rep)
		reports = append(reports, rep)
	}

	// collect cases for one native replay batch
	var cands []candidate
	var cases []sym.ReplayCase
	for _, rep := range reports {
		for _, v := range rep.Violations {
			cands = append(cands, candidate{rep.Harness, v})
			cases = append(cases, sym.MakeCase(rep.Harness, tier, spec.ID, v.Model))
		}
	}
	nViol := len(cases)
	// second attempt per candidate: the same model with the user's data amplified by
	// incompressible padding (size-dependent behaviour the string solver's small
	// witnesses do not reach natively; see the length abstraction in term.go)
	// ... and a third one with highly compressible padding (mode 2)
	for mode := 1; mode <= 2; mode++ {
		for i := 0; i < nViol; i++ {
			c := sym.MakeCase(cases[i].Harness, tier, spec.ID, cands[i].v.Model)
			sym.SetAmplify(&c, mode)
			cases = append(cases, c)
		}
	}
	type sampleRef struct {
		harness string
		s       *sym.PathSample
	}
	var srefs []sampleRef
	for _, rep := range reports {
		for _, s := range rep.Samples {
			srefs = append(srefs, sampleRef{rep.Harness, s})
			cases = append(cases, sym.MakeCase(rep.Harness, tier, spec.ID, s.Model))
		}
	}
	var results []sym.ReplayResult
	inconclusive := map[string]int{}
	if len(cases) > 0 {
		dir, err := os.MkdirTemp("", "vrt-replay-")
		if err != nil {
			fmt.Println("cannot create scratch dir:", err)
			return 2
		}
		defer os.RemoveAll(dir)
		var out string
		results, out, err = sym.RunReplay(dir, cases)
		if err != nil {
			fmt.Println("REPLAY-FAILURE:", err)
			fmt.Println(out)
			inconclusive["native replay failed: "+err.Error()]++
			results = nil
		}
	}

	exit := 0
	violations := 0
	var knownReported, unconfirmed, violationLines []string
	knownSeen := map[string]bool{}
	if results != nil {
		for i, c := range cands {
			r := results[i]
			confirmed := false
			for _, attempt := range []int{i, nViol + i, 2*nViol + i} {
				ra := results[attempt]
				hit := false
				for _, f := range ra.Failed {
					if f == c.v.ID || (strings.HasPrefix(f, c.v.ID+"@") && c.v.Site != "" && strings.HasPrefix(f[len(c.v.ID)+1:], strings.TrimPrefix(c.v.Site, "panic:"))) {
						hit = true
					}
				}
				if hit {
					r = ra
					cases[i] = cases[attempt] // the reproducing input is what is recorded
					break
				}
			}
			for _, f := range r.Failed {
				if f == c.v.ID {
					confirmed = true
				}
				if strings.HasPrefix(f, c.v.ID+"@") && c.v.Site != "" {
					site := strings.TrimPrefix(c.v.Site, "panic:")
					if strings.HasPrefix(f[len(c.v.ID)+1:], site) {
						confirmed = true
					}
				}
			}
			desc := c.v.ID
			if c.v.Site != "" {
				desc += " at " + c.v.Site
			}
			switch {
			case !confirmed:
				why := "native run did not fail " + c.v.ID
				if r.Invalid != "" {
					why = "native run invalid: " + r.Invalid
				}
				if r.Panic != "" {
					why = "native harness panicked: " + r.Panic
				}
				fmt.Printf("UNCONFIRMED property=%s %s (%s; native failed=%v)\n", spec.ID, desc, why, r.Failed)
				if keep := os.Getenv("VRT_KEEP_UNCONFIRMED"); keep != "" {
					h := sha256.Sum256([]byte(fmt.Sprint(c.v.ID, c.v.Site, cases[i].Model)))
					sym.WriteReplayDir(filepath.Join(keep, spec.ID, fmt.Sprintf("%x", h[:6])), []sym.ReplayCase{cases[i]})
				}
				unconfirmed = append(unconfirmed, desc+": "+why)
			case c.v.Region != "":
				if !knownSeen[c.v.Region] {
					knownSeen[c.v.Region] = true
					text := c.v.Region
					for _, k := range loadKnown() {
						if k.Property == spec.ID && k.Finding == c.v.Region {
							text = k.Finding + " — " + k.Text
						}
					}
					fmt.Printf("KNOWN-FINDING: property=%s %s\n", spec.ID, text)
					knownReported = append(knownReported, c.v.Region)
				}
			default:
				// genuine, reproduced, not listed: record a replay directory
				h := sha256.Sum256([]byte(fmt.Sprint(c.v.ID, c.v.Site, cases[i].Model)))
				dir := filepath.Join(verifDir, "replays", spec.ID, fmt.Sprintf("%x", h[:6]))
				sym.WriteReplayDir(dir, []sym.ReplayCase{cases[i]})
				os.WriteFile(filepath.Join(dir, "expect.json"), mustJSON(map[string]string{"property": spec.ID, "assertion": c.v.ID, "site": c.v.Site, "harness": c.harness}), 0o644)
				line := fmt.Sprintf("VIOLATION property=%s replay=%s", spec.ID, dir)
				fmt.Println(line, "assertion="+desc)
				violationLines = append(violationLines, line+" assertion="+desc)
				violations++
				exit = 1
			}
		}
	} else if len(cands) > 0 {
		for _, c := range cands {
			fmt.Printf("UNCONFIRMED property=%s %s (no native replay)\n", spec.ID, c.v.ID)
			unconfirmed = append(unconfirmed, c.v.ID+": no native replay")
		}
	}

	validated, mismatched := 0, 0
	var sampleOut []interface{}
	if results != nil {
		for i, sr := range srefs {
			r := results[3*nViol+i]
			if r.Invalid == "" && r.Panic == "" && strings.Join(r.Outcomes, ",") == strings.Join(sr.s.Outcomes, ",") {
				validated++
			} else {
				mismatched++
				msg := fmt.Sprintf("witness replay disagrees in %s: predicted %v, native %v invalid=%q panic=%q", sr.harness, sr.s.Outcomes, r.Outcomes, r.Invalid, r.Panic)
				fmt.Println("WITNESS-MISMATCH", msg, "failed="+fmt.Sprint(r.Failed), "model="+trunc(fmt.Sprint(modelForJSON(sr.s.Model)), 1500))
				inconclusive[msg]++
			}
			if len(sampleOut) < 8 {
				sampleOut = append(sampleOut, map[string]interface{}{"harness": sr.harness, "path_class": sr.s.Outcomes, "model": modelForJSON(sr.s.Model), "native_outcomes": r.Outcomes})
			}
		}
	}

	// aggregate
	states, transitions, asserts, triv := 0, 0, 0, 0
	confirms, confirmed := 0, 0
	covers := map[string]bool{}
	funcs := map[string]int{}
	contracts := map[string]bool{}
	bounds := map[string]int{}
	timedOut := false
	for _, rep := range reports {
		states += rep.Paths
		transitions += rep.Branches
		asserts += rep.Asserts
		triv += rep.AssertsTriv
		confirms += rep.Confirms
		confirmed += rep.Confirmed
		for k := range rep.Covers {
			covers[k] = true
		}
		for k, v := range rep.Funcs {
			funcs[k] = v
		}
		for k := range rep.Contracts {
			contracts[k] = true
		}
		for k, v := range rep.Bounds {
			bounds[k] = v
		}
		for k, v := range rep.Inconclusive {
			inconclusive[k] += v
		}
		if rep.TimedOut {
			timedOut = true
			inconclusive["wall-clock budget exhausted before all paths were explored"]++
		}
	}
	var missing []string
	for _, c := range spec.Covers {
		if !covers[c] {
			missing = append(missing, c)
			inconclusive["cover point not reached: "+c]++
		}
	}
	for k, n := range inconclusive {
		fmt.Printf("INCONCLUSIVE property=%s reason=%q paths=%d\n", spec.ID, k, n)
	}
	if len(sampleOut) == 0 {
		sampleOut = append(sampleOut, map[string]interface{}{"note": "no completed path sample (see inconclusive)"})
	}

	queries := map[string]interface{}{}
	solverTime := 0.0
	for name, st := range sym.Stats {
		queries[name] = map[string]int64{"sat": st.Sat, "unsat": st.Unsat, "unknown": st.Unknown, "errors": st.Errors}
		solverTime += float64(st.Nanos) / 1e9
	}
	var fnames []string
	for f, n := range funcs {
		if strings.Contains(f, "zz_verif") {
			continue
		}
		fnames = append(fnames, fmt.Sprintf("%s (%d instrs)", f, n))
	}
	sort.Strings(fnames)
	var cnames []string
	for c := range contracts {
		if strings.Contains(c, ".vrt") {
			continue
		}
		cnames = append(cnames, c)
	}
	sort.Strings(cnames)
	var incl []string
	for k, n := range inconclusive {
		incl = append(incl, fmt.Sprintf("%s (x%d)", k, n))
	}
	sort.Strings(incl)
	var coverList []string
	for c := range covers {
		coverList = append(coverList, c)
	}
	sort.Strings(coverList)
	assumptions := append([]string{}, spec.Assumptions...)
	for _, c := range cnames {
		assumptions = append(assumptions, "contract: "+c)
	}
	if states == 0 {
		states = 1
	}
	if transitions == 0 {
		transitions = 1
	}
	ev := map[string]interface{}{
		"property_id": spec.ID,
		"tier":        tier,
		"seed":        seed,
		"level":       "model_checking",
		"coverage": map[string]interface{}{
			"states":                        states,
			"transitions":                   transitions,
			"traces_validated_against_impl": validated,
			"samples":                       sampleOut,
			"explanation":                   "states = symbolic paths of the real SSA completed; transitions = symbolic branch decisions; every assertion instance on every path is discharged by the SMT solver (unsat of path-condition ∧ ¬assertion) within the stated bounds; traces_validated = solver models replayed on the real build whose observed path class equalled the predicted one",
			"functions_encoded":             fnames,
			"bounds":                        bounds,
			"assertion_instances":           asserts,
			"assertion_instances_decided_by_path_condition": triv,
			"queries":                       queries,
			"unsat_verdicts_put_to_second_solver":  confirms,
			"unsat_verdicts_confirmed_by_second_solver": confirmed,
			"solver_time_s":                 solverTime,
			"cover_points":                  coverList,
			"cover_points_missing":          missing,
			"inconclusive":                  incl,
			"known_findings_reported":       knownReported,
			"unconfirmed":                   unconfirmed,
			"violations_reported":           violationLines,
			"witness_mismatches":            mismatched,
			"complete_within_bounds":        len(inconclusive) == 0 && !timedOut,
			"harnesses":                     harnesses,
		},
		"assumptions": assumptions,
		"wall_s":      time.Since(start).Seconds(),
		"violations":  violations,
	}
	os.MkdirAll(filepath.Join(verifDir, "evidence"), 0o755)
	os.WriteFile(filepath.Join(verifDir, "evidence", spec.ID+".json"), mustJSON(ev), 0o644)
	fmt.Printf("property=%s tier=%s paths=%d assertions=%d violations=%d known=%d unconfirmed=%d inconclusive=%d replay-validated=%d wall=%.1fs\n",
		spec.ID, tier, states, asserts, violations, len(knownReported), len(unconfirmed), len(inconclusive), validated, time.Since(start).Seconds())
	return exit
}

func modelForJSON(m sym.Model) map[string]interface{} {
	out := map[string]interface{}{}
	for k, v := range m {
		if s, ok := v.(string); ok {
			out[k] = strconv.QuoteToASCII(s)
		} else {
			out[k] = v
		}
	}
	return out
}

func mustJSON(v interface{}) []byte {
	b, err := json.MarshalIndent(v, "", " ")
	if err != nil {
		panic(err)
	}
	return b
}

// doReplay re-runs a recorded violation against the current /repo.
func doReplay(prop, dir string) int {
	data, err := os.ReadFile(filepath.Join(dir, "cases.json"))
	if err != nil {
		fmt.Println(err)
		return 2
	}
	var cases []sym.ReplayCase
	if err := json.Unmarshal(data, &cases); err != nil {
		fmt.Println(err)
		return 2
	}
	var expect map[string]string
	if d, err := os.ReadFile(filepath.Join(dir, "expect.json")); err == nil {
		json.Unmarshal(d, &expect)
	}
	tmp, err := os.MkdirTemp("", "vrt-replay-")
	if err != nil {
		fmt.Println(err)
		return 2
	}
	defer os.RemoveAll(tmp)
	results, out, err := sym.RunReplay(tmp, cases)
	if err != nil {
		fmt.Println("REPLAY-FAILURE:", err, out)
		return 2
	}
	code := 0
	for i, r := range results {
		fmt.Printf("case %d: failed=%v outcomes=%v invalid=%q panic=%q\n", i, r.Failed, r.Outcomes, r.Invalid, r.Panic)
		for _, f := range r.Failed {
			if expect == nil || f == expect["assertion"] || strings.HasPrefix(f, expect["assertion"]+"@") {
				code = 1
			}
		}
	}
	if code == 1 {
		p := prop
		if p == "" && expect != nil {
			p = expect["property"]
		}
		fmt.Printf("VIOLATION property=%s replay=%s\n", p, dir)
	}
	return code
}

func trunc(s string, n int) string {
	if len(s) > n {
		return s[:n] + "…"
	}
	return s
}
