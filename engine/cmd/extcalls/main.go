// Command extcalls lists every function outside the module that module code calls.
package main

import (
	"fmt"
	"os"
	"sort"
	"strings"

	"golang.org/x/tools/go/packages"
	"golang.org/x/tools/go/ssa"
	"golang.org/x/tools/go/ssa/ssautil"
)

func main() {
	cfg := &packages.Config{Mode: packages.LoadAllSyntax, Dir: "/repo", Env: append(os.Environ(), "GOFLAGS=-mod=mod", "GOPROXY=off")}
	pkgs, err := packages.Load(cfg, "./pkg/...")
	if err != nil {
		panic(err)
	}
	prog, _ := ssautil.AllPackages(pkgs, ssa.InstantiateGenerics)
	prog.Build()
	mod := "github.com/zitadel/saml"
	out := map[string]map[string]bool{}
	for fn := range ssautil.AllFunctions(prog) {
		if fn.Pkg == nil || !strings.HasPrefix(fn.Pkg.Pkg.Path(), mod) || strings.Contains(fn.Pkg.Pkg.Path(), "/mock") {
			continue
		}
		for _, b := range fn.Blocks {
			for _, in := range b.Instrs {
				var cc *ssa.CallCommon
				switch c := in.(type) {
				case *ssa.Call:
					cc = &c.Call
				case *ssa.Defer:
					cc = &c.Call
				case *ssa.Go:
					cc = &c.Call
				}
				if cc == nil {
					continue
				}
				name := ""
				if cc.IsInvoke() {
					name = "invoke " + cc.Value.Type().String() + "." + cc.Method.Name()
				} else if callee := cc.StaticCallee(); callee != nil {
					if callee.Pkg != nil && strings.HasPrefix(callee.Pkg.Pkg.Path(), mod) {
						continue
					}
					if callee.Pkg == nil && callee.Parent() != nil {
						continue
					}
					name = callee.String()
				} else {
					continue
				}
				if out[name] == nil {
					out[name] = map[string]bool{}
				}
				out[name][fn.String()] = true
			}
		}
	}
	var names []string
	for n := range out {
		names = append(names, n)
	}
	sort.Strings(names)
	for _, n := range names {
		var cs []string
		for c := range out[n] {
			cs = append(cs, c[strings.LastIndex(c, "/")+1:])
		}
		sort.Strings(cs)
		if len(cs) > 4 {
			cs = append(cs[:4], "...")
		}
		fmt.Printf("%-70s %s\n", n, strings.Join(cs, " "))
	}
}
