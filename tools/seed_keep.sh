#!/bin/sh
# usage: seed_keep.sh <name> <worktree> <demo-file-relative>   -> copies patch + demo into /verif/seeded/<name>/
set -u
N=$1; WT=$2; DEMO=$3
D=/verif/seeded/$N; mkdir -p $D
git -C $WT diff -- . > $D/patch.diff
cp $WT/$DEMO $D/$(basename $DEMO)
ls -la $D
