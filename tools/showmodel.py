#!/usr/bin/env python3
import json,base64,sys
cs=json.load(open(sys.argv[1]+"/cases.json"))
for c in cs:
    print("harness",c["harness"],c["tier"],c["prop"])
    for k,v in sorted(c["model"].items()):
        if isinstance(v,dict) and v.get('s') is not None:
            print(" ",k,"=",repr(base64.b64decode(v['s'])))
        elif isinstance(v,dict): print(" ",k,"=",list(v.values())[0])
        else: print(" ",k,v)
