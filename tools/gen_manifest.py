#!/usr/bin/env python3
"""Regenerates /verif/MANIFEST.json from the table below (run from /verif)."""
import json, sys

TECH = "symbolic execution of the real go/ssa of /repo (own executor 'symgo') + SMT (z3 5.1 / cvc5 1.0) deciding every branch and assertion within stated bounds; counterexample models replayed natively on the real build before reporting"

CHECKS = {
 "C20": dict(
  text="bounded symbolic model checking of pkg/provider/checker: every chain of <=3 (quick) / <=4 (thorough) steps over all 8 constructors with symbolic parameters is executed on the real SSA; order, short-circuit, exactly-once callback, iff-result, per-kind failure condition and idempotence are compared with a reference transcribed from the statement; the solver decides every branch and assertion",
  note="bounds: chain length <=3/<=4, value lists <=2, length bounds in [-1,3]; logging has no effect; longer chains outside the claim",
  ref="DESIGN.md §5 C20"),
 "C16": dict(
  text="bounded symbolic model checking of GetAcsUrlAndBindingForResponse: all ACS lists of length <=3 (quick) / <=6 (thorough) with symbolic Binding/Location strings, every canonical xs:unsignedShort index (symbolic integer 0..65535), isDefault in {absent,true,false,1,0} and any requested binding; the result is compared with the statement's three rules; unsat = holds for every such list",
  note="assumes schema-valid registered metadata (non-empty Binding/Location, canonical index); strconv.Atoi/Itoa by contract; lists longer than the bound outside the claim",
  ref="DESIGN.md §5 C16"),
}

NA = {}

def main():
    props=[json.loads(l)["id"] for l in open("properties.jsonl")]
    checks=[]
    for pid in props:
        if pid in CHECKS:
            c=CHECKS[pid]
            checks.append({
              "property_id":pid,
              "quick_cmd":"/verif/bin/check %s --tier quick"%pid,
              "thorough_cmd":"/verif/bin/check %s --tier thorough"%pid,
              "evidence_file":"/verif/evidence/%s.json"%pid,
              "replay_cmd_template":"/verif/bin/check %s --replay {path}"%pid,
              "engine":"symgo",
              "technique":c.get("technique",TECH),
              "level_claimed":{"category":"model_checking","text":c["text"],"design_ref":c["ref"]},
              "level_note":c["note"],
            })
    na=[{"property_id":p,"reason":NA.get(p,"check not built yet (work in progress, see DESIGN.md)")} for p in props if p not in CHECKS]
    m={
     "version":1,
     "setup_cmd":"cd /verif/engine && GOFLAGS=-mod=mod GOPROXY=off go build -o /verif/bin/check ./cmd/check",
     "hooks":{"guard":"verif","enable":"none needed: harnesses are injected by overlay (go/packages Overlay, go test -overlay); no hook commits","baseline_off_cmd":"cd /repo && GOFLAGS=-mod=mod GOPROXY=off go test -vet=off -count=1 ./...","source_commits":[],"add_only":True},
     "engines":[{"name":"symgo","path":"/verif/engine","serves_properties":sorted(CHECKS),"kind_free_text":"own go/ssa symbolic executor over /repo's real code + SMT (z3 5.1 / cvc5 1.0), replay of every counterexample on the real build"}],
     "checks":checks,
     "not_applicable":na,
     "notes":"solver-based checking of the real code; see DESIGN.md. known_findings.txt lists repaired (fixed:) and open (known:) defects.",
    }
    json.dump(m,open("MANIFEST.json","w"),indent=1)
    print("checks:",len(checks),"not_applicable:",len(na))
main()
