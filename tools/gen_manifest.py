#!/usr/bin/env python3
"""Regenerates /verif/MANIFEST.json from the table below (run from /verif)."""
import json, sys

TECH = "symbolic execution of the real go/ssa of /repo (own executor 'symgo') + SMT (z3 5.1 / cvc5 1.0) deciding every branch and assertion within stated bounds; counterexample models replayed natively on the real build before reporting"

CHECKS = {
 "C01": dict(
  text="bounded symbolic model checking of the login-callback route through Provider.HttpHandler(): the request (id in query and/or body, any method), the storage answer (request absent | present with every field a free string, Done free, binding POST / Redirect / other), every storage fault (a failing user-info call may have filled the record before failing) and every key-material shape are symbolic; on every path the solver decides: Success => the lookup succeeded, Done() was consulted and true, no fault; a non-Success message carries no subject, attribute, authn statement or signature; user info is fetched only after Done; an HTTP error carries no message",
  note="histories: 'arbitrary storage answer per call' (DESIGN §3.7) plus one earlier nominal request of another session / a signed-metadata request served on the same provider first (DESIGN §9.6); user record: e-mail / user name optional, <=1 custom attribute; reply bytes are encoding/xml's (contract); strings unbounded",
  ref="DESIGN.md §5 C01"),
 "C02": dict(
  text="bounded symbolic model checking of the SSO, callback and logout routes: request-supplied URLs (AssertionConsumerServiceURL, Destination, RelayState, further parameters) are free strings independent of the registered ones; on every path the solver decides that a form action / redirect target / Destination / Recipient is a registered ACS (SSO), the stored consumer URL with the stored binding (callback) or the first registered SingleLogoutService location (logout), or the reply stays in the HTTP body; the pair handed to CreateAuthRequest is one registered ACS entry",
  note="ACS entries <=2 (quick) / <=3 (thorough), SLO entries <=2 / <=3; registered URLs absolute and none followed by '?' a prefix of another; browser URL semantics of 'acs?x=1?SAMLResponse=' outside the claim",
  ref="DESIGN.md §5 C02"),
 "C03": dict(
  text="bounded symbolic model checking of the callback route's Success paths: the decoded Success message is compared field for field with the stored request, the audience the storage resolved, the user record and the clock: InResponseTo (response and confirmation), Destination = Recipient, both Issuers, Audience, NameID, the attribute statement as a set of (Name, NameFormat, FriendlyName, value list), RelayState at the sink (escaped exactly once in a query), IssueInstant = NotBefore a clock reading of this request, NotOnOrAfter = IssueInstant + lifetime, two distinct fresh NCName ids",
  note="custom attributes <=1 / <=2, values per attribute <=2 / <=3; quick: e-mail and user name optional, thorough: every standard attribute optional; no storage faults (profile); byte-level escaping is encoding/xml's (contract, see C18); history: one earlier nominal callback of another session, also under a host-derived issuer with another Host (DESIGN §9.6)",
  ref="DESIGN.md §5 C03"),
 "C04": dict(
  text="bounded symbolic model checking at composition level of the callback, attribute-query and metadata routes with idealised signatures: (a) Redirect binding: the octets handed to the signer equal the octets a conformant verifier rebuilds from the Location actually sent (word equations over the escaping function, cvc5), SigAlg is the algorithm URI used, Signature is the base64 of the signer's bytes escaped once; (b) enveloped signatures: the value snapshot signed equals the snapshot that reaches the encoder and the ds:Signature on the wire equals member for member what the signer returned; (c) no Success message leaves unsigned, for stored bindings POST / Redirect and any (also empty) consumer URL",
  note="xmlsig's canonical form is a contract read from its source: it equals exclusive C14N of the wire document unless a signed text contains & < > CR or a signed attribute value & < \" TAB LF CR - on the pinned tree that region is a genuine, natively reproduced defect of the dependency, recorded as known finding C04.xmlsig-digests-text-unescaped (DESIGN §9.10); RSA/SHA themselves are idealised; of the tag-level effects on the canonical form only attributes in the predefined xml namespace are modelled (DESIGN §9.14); size-dependent paths are reached through the length abstraction and the amplified replay (DESIGN §9.8); history: a signed-metadata request with another key pair first (DESIGN §9.6)",
  ref="DESIGN.md §5 C04"),
 "C05": dict(
  text="bounded symbolic model checking of the SSO route with idealised signatures: parameters in query and/or body (so moving a message or its signature to the other binding is a valuation), AuthnRequestsSigned / WantAuthRequestsSigned over {absent,true,false,1,0,any string}, 0..1 (quick) / 0..2 (thorough) key descriptors with symbolic key type, arbitrary embedded Signature / KeyInfo shape, arbitrary Signature / SigAlg parameters; the simulated SP signs nothing, so every signature value is a forgery: the solver decides that no path reaches CreateAuthRequest when signing is required by either side, or when any non-empty signature value (query parameter or ds:SignatureValue, on either binding) is present; the signed-request harness (HarnessSSOSigned) adds one validly signed Redirect request and decides that acceptance implies the values acted on are exactly the signed ones",
  note="validly signed POST-binding (enveloped) requests are outside the profiles: no native enveloped signer for the SP (seeded change C05-post-signing-certificates-cached-per-sp-id not detected); signature wrapping inside the XML-DSig libraries (etree vs encoding/xml disagreeing on the document) is outside the claim: the validation contract is 'valid iff these bytes carry a valid enveloped signature under the registered roots'",
  ref="DESIGN.md §5 C05"),
 "C06": dict(
  text="bounded symbolic model checking of the SSO route: at every path that reaches acceptance the solver decides, on the inputs, each necessary condition: SAMLRequest non-empty, SigAlg => Signature, known encoding, the message decodes under the encoding in effect, Issuer present and equal to the entity ID of the registered SP the storage returned, ID and Version non-empty, Destination empty or the advertised SSO location, NotBefore / NotOnOrAfter empty or parseable and bracketing some clock reading of the request",
  note="well-formedness of XML / base64 / DEFLATE are library contracts; time layout is the default one; strings unbounded",
  ref="DESIGN.md §5 C06"),
 "C07": dict(
  text="bounded symbolic model checking of the converse direction on the SSO, logout and attribute-query routes: a schema-valid (struct level) request of a registered SP - every optional element / attribute arbitrary, Issuer registered, Destination absent or advertised, timestamps inside the window at every clock reading, Redirect (deflate, query) or POST (form) or SOAP binding, unsigned where nobody requires signing or (AuthnRequest, Redirect binding) signed by the registered RSA key with rsa-sha1 / rsa-sha256 over Go-style percent-encoded octets - is assumed, and the solver decides that it is accepted (persist + 303, resp. Success)",
  note="byte-level serialisation variety (prefixes, whitespace, attribute order), other percent-encoding styles of signed queries, and enveloped (POST / SOAP) signed requests are outside this check (decode model is struct level; see DESIGN §5 C07)",
  ref="DESIGN.md §5 C07"),
 "C08": dict(
  text="bounded symbolic model checking of the SSO route over six input profiles (placement/decoding, signatures, ACS shapes incl. Artifact / PAOS / unknown bindings, content, storage faults, ACS x faults): on every path at most one CreateAuthRequest; acceptance = exactly one successful persist followed by one 303 to sp.LoginURL(returned id) and no message; rejection = no successful persist and exactly one non-empty reply (one non-Success Response as form / redirect / body, or one http.Error); never an empty reply, two messages, a reply after a persist, or a panic",
  note="ACS entries <=2 / <=3; the product of all profiles at once is outside the claim (each profile pins the other dimensions to nominal values, listed in the evidence)",
  ref="DESIGN.md §5 C08"),
 "C09": dict(
  text="bounded symbolic model checking of all routes and of serviceprovider.NewServiceProvider with lazily initialised inputs: every pointer-typed optional element of the decoded AuthnRequest / LogoutRequest / AttributeQuery / SOAP envelope / SP metadata is independently nil or present, lists have 0..1 (quick) / 0..2 (thorough) elements, the SP key type and SigAlg are symbolic; every nil dereference, failed type assertion, index out of range, nil map write or explicit panic in module code is a terminal state, and the solver decides that none is reachable",
  note="Level S decode model: every type-consistent struct is a possible decoding result; panics inside libraries on malformed bytes are outside the claim; storage contract: a nil error comes with a non-nil record",
  ref="DESIGN.md §5 C09"),
 "C10": dict(
  text="bounded symbolic model checking of all routes with a storage whose every call occurrence may fail (symbolic decision per call; a failing service-provider lookup may return a record together with the error, a failing user-info call may have filled the record; the two signing-key getters additionally return nil record / key without certificate / certificate without key / empty certificate; the configured signature algorithm is a free string): all fault combinations are covered at once; the solver decides that a faulted request ends in a 5xx http.Error or a non-Success message, with no Success, no user data, no signed metadata, no persist after the fault and no panic",
  note="user record and message content pinned to nominal shapes (profile); ResponseWriter failures out of scope",
  ref="DESIGN.md §5 C10"),
 "C11": dict(
  text="bounded symbolic model checking of NewProvider, the router and the metadata / certificate routes: for symbolic endpoint configurations the solver decides entityID = Issuer of every reply, advertised SSO / SLO / attribute locations = issuer + the path under which the corresponding handler (by function identity) is routed, the signing KeyDescriptor = the certificate createSignature uses and the certificate endpoint serves; WantAuthnRequestsSigned advertised as xs:boolean true iff an unsigned request is refused (HarnessC11Flags, through the SSO route)",
  note="gorilla/mux modelled as a path-equality route table (no {} templates); static https issuer; well-formedness of the served bytes is encoding/xml's",
  ref="DESIGN.md §5 C11"),
 "C12": dict(
  text="bounded symbolic model checking of the attribute-query route: lazily initialised SOAP envelope, requested attributes with free Name / NameFormat, symbolic user record; on every path that discloses a subject or attribute the solver decides: Issuer present and resolved by the storage, no unverified signature value, Destination absent or the advertised AttributeService location, InResponseTo = query ID, audience = requester, subject = the user storage resolved for the queried NameID, returned (Name, NameFormat) set = exactly the requested ones among the user's (all when none requested), assertion signed",
  note="requested attributes <=1 / <=2, custom attributes <=1 / <=2; the simulated requester signs nothing (every signature value is a forgery)",
  ref="DESIGN.md §5 C12"),
 "C13": dict(
  text="bounded symbolic model checking of the logout route: parameters in query and/or body, either encoding or undecodable input, lazily initialised LogoutRequest, symbolic timestamps and clock, SP absent or with 0..2 (3) SingleLogoutService entries: the solver decides Success => decodes, issuer registered, timestamps parse, inside the window for some clock reading; InResponseTo echoes the ID whenever the request decodes; Issuer is the IdP entity ID; the form goes to the first registered SLO location with the unchanged RelayState, else the body",
  note="time layout default; RelayState compared as a term (byte escaping is html/template's)",
  ref="DESIGN.md §5 C13"),
 "C14": dict(
  text="symbolic model checking of xml.InflateAndDecode and its callers (SSO query, SSO form, logout) with the stream contracts: the payload is padding only or a complete conformant AuthnRequest / LogoutRequest followed by a padding comment, framed as raw DEFLATE, zlib or gzip; its inflated length L is an unconstrained symbolic integer (0..2^40); the solver decides, for every L, that no operation materialises more than 32 MiB of stream content and that a payload above 32 MiB is never accepted (persisted / answered with Success), also not after truncation",
  note="decided for limiters the contracts know (io.LimitReader, LimitedReader, MaxBytesReader, CopyN) and readers flate / zlib / gzip; a truncated prefix that still holds the complete leading document decodes (xml.Unmarshal ignores what follows the root element); a hand-written counting loop is reported inconclusive; allocator figures and flate's window memory outside the claim",
  ref="DESIGN.md §5 C14"),
 "C15": dict(
  text="reduction (DESIGN §3.7) decided by symbolic execution of every route: every heap object carries its epoch; on every path of every handler the engine checks that no store, map update or append targets a provider-lifetime object or a package variable (so replies are functions of the request and the storage answers obtained during it, and concurrent requests cannot interfere through module code); every emitted ID is a fresh, pairwise distinct uuid-derived NCName (C03 / C11 harness assertions); sync.Map / atomic.Value / sync.Pool are modelled: request-dependent stores are writes, a pooled buffer comes back with an arbitrary leftover, bytes aliasing a buffer put back are arbitrary; under all of that the reply must consist of this request's own documents",
  note="schedules are NOT enumerated: the reduction plus the pool contract stand for them, and the native replay has two deterministic devices (clients that abort the transfer before the request, other clients served during the first Write; DESIGN §9.6); goroutine-safety of html/template, uuid, crypto/rand and the storage is trusted; the race detector and library-internal races are outside the claim",
  ref="DESIGN.md §5 C15"),
 "C17": dict(
  text="usage-level symbolic model checking of every path of the SSO, callback and logout routes that ends in a form: the executed template is an html/template object parsed from the module's constant text, that text has exactly three actions each inside a double-quoted attribute value of the expected element, the data has exactly three plain-string fields equal to the consumer / logout URL term, the RelayState term and base64(xml(message)), no bypass type (template.HTML/URL/JS...) reaches the sink (for string-kinded bypass types the violation is stated on a distinguishing value, e.g. a javascript: consumer URL, so that the replay shows it), at most one form per reply also when the page is rendered through pooled buffers (DESIGN §9.6); stored consumer URLs of POST-binding requests are arbitrary strings",
  note="html/template's contextual escaping itself (every byte inert, javascript:/data: replaced) is the library's documented contract and is not encoded",
  ref="DESIGN.md §5 C17"),
 "C18": dict(
  text="symbolic model checking of the codec functions under the stream contracts: InflateAndDecode returns an error for every encoding identifier outside {\"\", DEFLATE} (all strings); InflateAndDecode(DEFLATE, true, DeflateAndBase64(x)) returns x or an error, and x whenever len(x) <= 1 MiB; also when other messages are encoded in between; every reply of every route is exactly one document produced by encoding/xml's encoder, and what the library's decoder returns for it equals what was handed to the encoder - custom MarshalXML / UnmarshalXML / MarshalText / UnmarshalText methods of module types are executed from their SSA inside the contracts (DESIGN §9.7)",
  note="character-level escaping ('illegal characters are replaced, never restructure') is encoding/xml's EscapeText, flate's codec is the library's: contracts, not encoded; of what a struct tag makes encoding/xml write (Level T) only the CDATA rule is modelled (DESIGN §9.14)",
  ref="DESIGN.md §5 C18"),
 "C19": dict(
  text="symbolic model checking of StaticIssuer / ValidateIssuer / NewProvider over the components url.Parse may return (lazy *url.URL) and of the host-derived issuer over symbolic Host / forwarded-header parser results / path / insecure flag: acceptance => non-empty, parses, host non-empty, https (http only with the insecure flag), no fragment, no query; dynamic issuer = scheme + '://' + first forwarded host else Host + path with a leading slash, containing no other request-derived symbol",
  note="the string -> components mapping (url.Parse) and the Forwarded grammar (httpforwarded) are library code behind contracts",
  ref="DESIGN.md §5 C19"),

 "C20": dict(
  text="bounded symbolic model checking of pkg/provider/checker: every chain of <=3 (quick) / <=4 (thorough) steps over all 8 constructors with symbolic parameters is executed on the real SSA; order, short-circuit, exactly-once callback, iff-result, per-kind failure condition and idempotence are compared with a reference transcribed from the statement; the solver decides every branch and assertion",
  note="bounds: chain length <=3/<=4, value lists <=2, length bounds in [-1,3]; logging has no effect; longer chains outside the claim",
  ref="DESIGN.md §5 C20"),
 "C16": dict(
  text="bounded symbolic model checking of GetAcsUrlAndBindingForResponse: all ACS lists of length <=3 (quick) / <=6 (thorough) with symbolic Binding/Location strings, every canonical xs:unsignedShort index (symbolic integer 0..65535), isDefault in {absent,true,false,1,0} and any requested binding; the result is compared with the statement's three rules; unsat = holds for every such list",
  note="assumes schema-valid registered metadata (non-empty Binding/Location, canonical index); strconv.Atoi/Itoa by contract; lists longer than the bound outside the claim",
  ref="DESIGN.md §5 C16"),
}

NA = {}

def main():
    props=[json.loads(l)["id"] for l in open("properties.jsonl")]
    checks=[]
    for pid in props:
        if pid in CHECKS:
            c=CHECKS[pid]
            checks.append({
              "property_id":pid,
              "quick_cmd":"/verif/bin/check %s --tier quick"%pid,
              "thorough_cmd":"/verif/bin/check %s --tier thorough"%pid,
              "evidence_file":"/verif/evidence/%s.json"%pid,
              "replay_cmd_template":"/verif/bin/check %s --replay {path}"%pid,
              "engine":"symgo",
              "technique":c.get("technique",TECH),
              "level_claimed":{"category":"model_checking","text":c["text"],"design_ref":c["ref"]},
              "level_note":c["note"],
            })
    na=[{"property_id":p,"reason":NA.get(p,"check not built yet (work in progress, see DESIGN.md)")} for p in props if p not in CHECKS]
    m={
     "version":1,
     "setup_cmd":"cd /verif/engine && GOFLAGS=-mod=mod GOPROXY=off go build -o /verif/bin/check ./cmd/check",
     "hooks":{"guard":"verif","enable":"none needed: harnesses are injected by overlay (go/packages Overlay, go test -overlay); no hook commits","baseline_off_cmd":"cd /repo && GOFLAGS=-mod=mod GOPROXY=off go test -vet=off -count=1 ./...","source_commits":[],"add_only":True},
     "engines":[{"name":"symgo","path":"/verif/engine","serves_properties":sorted(CHECKS),"kind_free_text":"own go/ssa symbolic executor over /repo's real code + SMT (z3 5.1 / cvc5 1.0), replay of every counterexample on the real build"}],
     "checks":checks,
     "not_applicable":na,
     "notes":"solver-based checking of the real code; see DESIGN.md. known_findings.txt lists repaired (fixed:) and open (known:) defects.",
    }
    json.dump(m,open("MANIFEST.json","w"),indent=1)
    print("checks:",len(checks),"not_applicable:",len(na))
main()
