#!/bin/sh
# usage: seed_store.sh <name> <patch file> <demo test file> <breaks> <needs> <detected_by json> [also_breaks json]
set -u
N=$1; D=/verif/seeded/$N; mkdir -p $D
cp "$2" $D/patch.diff; cp "$3" $D/$(basename "$3")
python3 - "$D" "$4" "$5" "$6" "${7:-[]}" "$(basename $3)" <<'PY'
import json,sys
d,breaks,needs,det,also,demo=sys.argv[1:7]
json.dump({"breaks_property":breaks,"also_breaks":json.loads(also),
 "origin":"independent sub-agent given only the text of the property and a scratch worktree",
 "needs_to_manifest":needs,
 "demonstration":demo,
 "confirmed":"tools/seed_try.sh: existing suite passes with the change (demos aside); the demo fails with it and passes without it",
 "ran":"tools/seed_try.sh <scratch worktree> patch.diff <demo> <pkg> <run> quick <props> (checks run against the changed worktree through VERIF_REPO)",
 "detected_by":json.loads(det)},open(d+"/meta.json","w"),indent=1)
PY
ls $D
