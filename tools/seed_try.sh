#!/bin/sh
# usage: seed_try.sh <worktree> <patch file> <demo test file (relative)> <go test pkg> <run regex> <tier> <prop>...
# 1. confirms the seeded change in the scratch worktree: suite passes with it (demo aside),
#    demo fails with it, demo passes without it;
# 2. runs the given checks against the worktree WITH the change (VERIF_REPO), writing
#    evidence/replays into a throw-away VERIF_DIR so that /verif/evidence and /repo stay untouched;
# 3. leaves the worktree without the change.
set -u
WT=$1; PATCH=$(realpath "$2"); DEMO=$3; PKG=$4; RUN=$5; TIER=$6; shift 6
export GOFLAGS=-mod=mod GOPROXY=off
cd "$WT" || exit 2
git checkout -- . 2>/dev/null
git apply "$PATCH" || { echo "patch does not apply"; exit 2; }
# move every demo aside for the suite run
mkdir -p /tmp/seed_aside.$$
for f in $(git ls-files --others --exclude-standard | grep '_test.go$'); do mkdir -p /tmp/seed_aside.$$/$(dirname $f); mv $f /tmp/seed_aside.$$/$f; done
echo "== suite with change (demos aside)"
go build ./... && go test -vet=off -count=1 ./... 2>&1 | grep -v "no test files" | tail -8
(cd /tmp/seed_aside.$$ && find . -type f) | while read f; do mv /tmp/seed_aside.$$/$f $f; done
rm -rf /tmp/seed_aside.$$
echo "== demo with change (expect FAIL)"; go test -vet=off -count=1 "$PKG" -run "$RUN" 2>&1 | tail -4
git apply -R "$PATCH"
echo "== demo without change (expect ok)"; go test -vet=off -count=1 "$PKG" -run "$RUN" 2>&1 | tail -3
git apply "$PATCH"
# checks against the changed tree; demos moved out of the way (they are _test files, not loaded anyway)
VD=$(mktemp -d /tmp/seed_vd.XXXXXX)
ln -s /verif/harness $VD/harness; ln -s /verif/known_findings.txt $VD/known_findings.txt; mkdir -p $VD/evidence $VD/replays
for p in "$@"; do
  VERIF_DIR=$VD VERIF_REPO=$WT /verif/bin/check $p --tier $TIER > $VD/$p.log 2>&1; rc=$?
  grep -E "^(VIOLATION|KNOWN|UNCONFIRMED|INCONCLUSIVE|WITNESS|BUILD)" $VD/$p.log | cut -c1-300 | head -12
  echo "== check $p exit=$rc $(grep '^property=' $VD/$p.log)"
done
rm -rf $VD
git apply -R "$PATCH"
