#!/bin/sh
# run from a vp snapshot: builds the checker there and runs the thorough tier of every property
export GOFLAGS=-mod=mod GOPROXY=off
(cd engine && go build -o ../bin/check ./cmd/check) || exit 2
for p in ${THOROUGH_PROPS:-C20 C16 C14 C19 C13 C17 C18 C06 C12 C11 C01 C03 C04 C02 C10 C15 C09 C08 C05 C07}; do
  s=$(date +%s)
  VERIF_DIR=$PWD ./bin/check $p --tier thorough > thorough_$p.log 2>&1
  echo "$p exit=$? $(( $(date +%s)-s ))s $(grep -E '^property=' thorough_$p.log)" 
  grep -E '^(VIOLATION|UNCONFIRMED|INCONCLUSIVE|WITNESS|KNOWN)' thorough_$p.log | cut -c1-250
done
