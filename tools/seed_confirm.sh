#!/bin/sh
# usage: seed_confirm.sh <worktree> <demo-file-relative> <go test pkg> <run regex>
# confirms: suite passes with change; demo fails with change; demo passes without change
set -u
WT=$1; DEMO=$2; PKG=$3; RUN=$4
export GOFLAGS=-mod=mod GOPROXY=off
cd "$WT" || exit 2
git diff -- . > /tmp/seed_patch.$$.diff
[ -s /tmp/seed_patch.$$.diff ] || { echo "no change in worktree"; exit 2; }
mv "$DEMO" /tmp/seed_demo.$$.go
echo "== suite with change (demo aside)"; go build ./... && go test -vet=off -count=1 ./... 2>&1 | grep -v "no test files" | tail -6
mv /tmp/seed_demo.$$.go "$DEMO"
echo "== demo with change (expect FAIL)"; go test -vet=off -count=1 "$PKG" -run "$RUN" 2>&1 | tail -4
git apply -R /tmp/seed_patch.$$.diff
echo "== demo without change (expect ok)"; go test -vet=off -count=1 "$PKG" -run "$RUN" 2>&1 | tail -3
git apply /tmp/seed_patch.$$.diff
rm -f /tmp/seed_patch.$$.diff
