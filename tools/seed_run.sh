#!/bin/sh
# usage: seed_run.sh <seed dir with patch.diff> <tier> <prop>...
# applies the seeded change to /repo, runs the given checks, restores /repo
set -u
SD=$1; TIER=$2; shift 2
[ -z "$(git -C /repo status --porcelain)" ] || { echo "/repo not clean"; exit 2; }
git -C /repo apply "$(realpath $SD)/patch.diff" || exit 2
trap 'git -C /repo checkout -- . ' EXIT
for p in "$@"; do
  mkdir -p /tmp/seedev; cp /verif/evidence/$p.json /tmp/seedev/$p.json 2>/dev/null
  /verif/bin/check $p --tier $TIER 2>&1 | grep -E "^(VIOLATION|KNOWN|UNCONFIRMED|INCONCLUSIVE|WITNESS|property=|BUILD)" | cut -c1-400
  echo "exit=$? (grep)"; 
  cp /tmp/seedev/$p.json /verif/evidence/$p.json 2>/dev/null
done
