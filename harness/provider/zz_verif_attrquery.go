package provider

import (
	"github.com/zitadel/saml/pkg/provider/serviceprovider"
	"github.com/zitadel/saml/pkg/provider/xml/md"
	"github.com/zitadel/saml/pkg/provider/xml/saml"
	"github.com/zitadel/saml/pkg/provider/xml/samlp"
	"github.com/zitadel/saml/pkg/provider/xml/soap"
)

// The attribute-query route (C04, C07, C09, C10, C12, C15, C18).

func init() {
	vrtHarnesses["HarnessAttrQuery"] = HarnessAttrQuery
	vrtHarnesses["HarnessAttrQueryConformant"] = HarnessAttrQueryConformant
}

const vrtAttrPath = "/attribute"

func vrtIssuerOf(text string) *saml.NameIDType { return &saml.NameIDType{Text: text} }

// vrtAttrSP: the registered requester (no consumer endpoints needed).
func vrtAttrSP(withKeys bool) (*serviceprovider.ServiceProvider, *md.EntityDescriptorType, bool) {
	if !vrtBool("sp.registered") {
		return nil, nil, false
	}
	doc := &md.EntityDescriptorType{EntityID: md.EntityIDType(vrtStr("sp.EntityID"))}
	doc.SPSSODescriptor = &md.SPSSODescriptorType{}
	if withKeys {
		lz := &md.EntityDescriptorType{}
		vrtLazy(lz, "sp")
		if lz.SPSSODescriptor != nil {
			doc.SPSSODescriptor.KeyDescriptor = lz.SPSSODescriptor.KeyDescriptor
		}
	}
	var sp *serviceprovider.ServiceProvider
	var err error
	if vrtTry(func() {
		sp, err = serviceprovider.NewServiceProvider(vrtStr("sp.appID"), &serviceprovider.Config{Metadata: []byte(vrtWireXML(doc))},
			func(id string) string { return "https://login.example.test/login?authRequestID=" + id })
	}) {
		return nil, doc, true
	}
	if err != nil {
		return nil, doc, false
	}
	return sp, doc, false
}

type vrtAttrReply struct {
	decoded bool
	resp    *samlp.ResponseType
}

func vrtDecodeSOAPResponse(rp vrtReply) vrtAttrReply {
	out := vrtAttrReply{}
	if rp.Kind != "xml" {
		return out
	}
	env := &soap.ResponseEnvelope{}
	if vrtXMLTo(rp.Body, env) && env.Body.Response != nil {
		out.decoded, out.resp = true, env.Body.Response
	}
	return out
}

// vrtRequestedAttrs: 0..n requested attributes with arbitrary Name / NameFormat.
func vrtRequestedAttrs(max int) []saml.AttributeType {
	n := vrtChoice("requested#", max+1)
	var out []saml.AttributeType
	for i := 0; i < n; i++ {
		out = append(out, saml.AttributeType{Name: vrtStr("requested.name", i), NameFormat: vrtStr("requested.format", i), FriendlyName: vrtStr("requested.friendly", i)})
	}
	return out
}

// vrtFilteredAttributes: exactly those of the user's attributes whose (Name,
// NameFormat) matches a requested attribute — all of them when none was
// requested — compared as sets.
func vrtFilteredAttributes(u *vrtUser, requested []saml.AttributeType, got []*saml.AttributeType) bool {
	exp := vrtExpectedAttributes(u)
	want := make([]bool, len(exp))
	for i, e := range exp {
		w := len(requested) == 0
		for _, r := range requested {
			w = vrtOr(w, vrtAnd(r.Name == e.name, r.NameFormat == e.format))
		}
		want[i] = w
	}
	all := true
	for i, e := range exp {
		found := false
		for _, g := range got {
			found = vrtOr(found, vrtAttrEqual(e, g))
		}
		all = vrtAnd(all, vrtImplies(want[i], found))
	}
	for _, g := range got {
		found := false
		for i, e := range exp {
			found = vrtOr(found, vrtAnd(want[i], vrtAttrEqual(e, g)))
		}
		all = vrtAnd(all, found)
	}
	return all
}

func HarnessAttrQuery() {
	// bound profiles: C10 opens the storage faults and key-material shapes (and asserts the absence of
	// panics under them), C09 opens the message and metadata structure with nominal storage
	faults := vrtProp("C10")
	st := &vrtStore{noFaults: !faults, keyShapes: faults}
	st.respCert, st.respKey = vrtIdPKeyPair("idpkey")
	if !faults {
		vrtAssume(vrtBool("idpkey.cert.valid"))
		vrtAssume(vrtBool("idpkey.match"))
	}
	full := vrtProp("C12") && vrtThorough()
	if vrtProp("C09") {
		// profile of C09: the message and metadata structure is open; the user record has no custom
		// attributes and the configured algorithm is pinned (neither is dereferenced conditionally)
		st.user = vrtNewUserMode("user", false, true, 0, 0)
		vrtAssume(vrtBool("conf.sha1"))
	} else {
		st.user = vrtNewUserMode("user", full, true, vrtBound("custom attributes of the user", 1, 2), vrtBound("values per custom attribute", 1, 2))
	}
	sp, doc, regPanicked := vrtAttrSP(vrtProp("C12") && vrtThorough() || vrtProp("C09"))
	vrtNominalSigAlg = !faults
	if regPanicked {
		vrtOutcome("registration-panic")
		if vrtProp("C09") {
			vrtPanicked("C09.no-panic-in-registration")
		}
		return
	}
	st.sp = sp
	// history (C12 / C15): nothing | an earlier attribute query of the same service provider,
	// served under another host by a provider that derives its issuer from the request
	hist := 0
	if (vrtProp("C12") || vrtProp("C15")) && doc != nil && !vrtBool("hist.none") {
		hist = 5
		vrtHostIssuer = true
		vrtEarlierEntityID = string(doc.EntityID)
	}
	p := vrtNewProviderWith(st, false)
	vrtEarlierRequest(p, st, hist)

	rb := vrtNewRequest("req", vrtStr("req.method"), vrtAttrPath)
	env := &soap.AttributeQueryEnvelope{}
	var aq *samlp.AttributeQueryType
	isGarbage := vrtBool("body.garbage")
	body := ""
	if isGarbage {
		body = vrtStr("body.raw")
		vrtAssume(vrtUndecodable(body))
	} else {
		if vrtProp("C09") || vrtProp("C10") {
			vrtLazy(env, "env")
			aq = env.Body.AttributeQuery
		} else {
			aq = &samlp.AttributeQueryType{}
			vrtLazy(aq, "aq")
			env.Body.AttributeQuery = aq
		}
		if aq != nil {
			aq.Attribute = vrtRequestedAttrs(vrtBound("requested attributes", 1, 2))
		}
		body = vrtWireXML(env)
	}
	if hist != 0 {
		// bound profile of the history dimension: the request under test is a decodable query
		// without attribute filter for a user without custom attributes (what stays open: issuer,
		// destination, signature, subject)
		vrtAssume(!isGarbage)
		vrtAssume(aq != nil && len(aq.Attribute) == 0)
		vrtAssume(st.user.nCustom == 0)
		vrtAssume(!vrtBool("body.readfails"))
	}
	vrtReqBody(rb, body, vrtBool("body.readfails"))
	rp, panicked := vrtServe(p, rb)

	if panicked {
		vrtOutcome("panic")
		if vrtProp("C09") || vrtProp("C10") {
			vrtPanicked(vrtPropID() + ".no-panic")
		}
		return
	}
	if vrtProp("C15") {
		vrtAssert("C15.no-write-to-provider-lifetime-state", vrtSharedWrites() == 0)
		// under every schedule and history the reply consists of documents this request produced
		vrtAssert("C15.reply-made-of-this-requests-own-documents", rp.Kind != "other" && rp.Docs+rp.Forms <= 1)
	}
	d := vrtDecodeSOAPResponse(rp)
	success := d.decoded && d.resp.Status.StatusCode.Value == StatusCodeSuccess
	discloses := d.decoded && (d.resp.Assertion.Subject != nil || len(d.resp.Assertion.AttributeStatement) > 0)
	vrtOutcome(rp.Kind)
	if success {
		vrtOutcome("success")
		vrtCover("attrquery.success")
	}
	if rp.Kind == "error" {
		vrtCover("attrquery.error")
	}

	if vrtProp("C12") {
		vrtAssert("C12.reply-is-error-or-one-response", rp.Kind == "error" || d.decoded)
		if discloses {
			a := &d.resp.Assertion
			vrtAssert("C12.disclosure-only-for-a-decodable-query", !isGarbage && aq != nil)
			if !isGarbage && aq != nil {
				vrtAssert("C12.issuer-present-and-registered", aq.Issuer != nil && sp != nil)
				embedded := aq.Signature != nil && aq.Signature.SignatureValue.Text != ""
				// nothing is signed by the simulated requester here, so no signature value can verify
				vrtAssert("C12.unverified-signature-value-never-ignored", !embedded)
				vrtAssert("C12.destination-is-the-attribute-service", aq.Destination == "" || aq.Destination == vrtIssuer+vrtAttrPath)
				vrtAssert("C12.inresponseto-echoes-the-query", d.resp.InResponseTo == aq.Id)
				okSubj := a.Subject != nil && a.Subject.NameID != nil && aq.Subject.NameID != nil
				vrtAssert("C12.subject-shape", okSubj)
				if okSubj {
					vrtAssert("C12.subject-is-the-resolved-user", a.Subject.NameID.Text == st.user.username)
					last := st.calls[len(st.calls)-2]
					vrtAssert("C12.user-resolved-for-the-queried-subject", st.count("SetUserinfoWithLoginName") == 1 && last.Name == "SetUserinfoWithLoginName" && last.Args[0] == aq.Subject.NameID.Text)
				}
				okAud := a.Conditions != nil && len(a.Conditions.AudienceRestriction) == 1 && len(a.Conditions.AudienceRestriction[0].Audience) == 1
				vrtAssert("C12.audience-shape", okAud)
				if okAud && doc != nil {
					vrtAssert("C12.audience-is-the-requester", a.Conditions.AudienceRestriction[0].Audience[0] == string(doc.EntityID))
				}
				vrtAssert("C12.one-attribute-statement", len(a.AttributeStatement) == 1)
				if len(a.AttributeStatement) == 1 {
					vrtAssert("C12.exactly-the-requested-attributes", vrtFilteredAttributes(st.user, aq.Attribute, a.AttributeStatement[0].Attribute))
				}
				vrtAssert("C12.assertion-signed", a.Signature != nil)
			}
		}
	}

	if vrtProp("C04") && success {
		a := &d.resp.Assertion
		vrtCover("C04.attrquery-success")
		vrtAssert("C04.success-assertion-is-signed", a.Signature != nil)
		if a.Signature != nil {
			vrtFinding("C04.xmlsig-digests-text-unescaped", vrtC14NSensitive(a))
			vrtAssert("C04.enveloped-signature-verifies-on-the-wire", vrtEnvelopedValid(a, a.Signature, string(st.respCert)))
		}
	}

	if vrtProp("C10") && st.faulted {
		vrtAssert("C10.fault-ends-in-error-reply", rp.Kind == "error" && rp.Code >= 500 || d.decoded && !success)
		vrtAssert("C10.no-user-data-after-fault", !discloses)
	}
	if vrtProp("C18") {
		vrtAssert("C18.single-document", rp.Docs <= 1 && rp.Forms == 0)
		vrtC18Reply(rp, rp.Kind == "xml", d.decoded)
	}
}

// HarnessAttrQueryConformant (C07): an unsigned, schema-valid AttributeQuery of
// a registered requester, addressed to the advertised attribute service (or
// carrying no Destination), is answered with Success.
func HarnessAttrQueryConformant() {
	st := &vrtStore{noFaults: true}
	st.respCert, st.respKey = vrtIdPKeyPair("idpkey")
	vrtAssume(vrtBool("idpkey.cert.valid"))
	vrtAssume(vrtBool("idpkey.match"))
	st.user = vrtNewUser("user", false, 1, 1)
	doc := &md.EntityDescriptorType{EntityID: md.EntityIDType(vrtStr("sp.EntityID")), SPSSODescriptor: &md.SPSSODescriptorType{}}
	vrtAssume(doc.EntityID != "")
	sp, err := serviceprovider.NewServiceProvider("app", &serviceprovider.Config{Metadata: []byte(vrtWireXML(doc))}, func(id string) string { return "https://login.example.test/" + id })
	if err != nil {
		vrtFail("harness.registration-failed")
		return
	}
	st.sp = sp
	conf := &Config{IDPConfig: &IdentityProviderConfig{SignatureAlgorithm: vrtRSASHA256}}
	if vrtBool("conf.sha1") {
		conf.IDPConfig.SignatureAlgorithm = vrtRSASHA1
	}
	vrtIssuer = vrtStaticIssuer
	p, err := NewProvider(st, StaticIssuer(vrtIssuer), conf)
	if err != nil {
		vrtFail("harness.NewProvider-failed")
		return
	}
	aq := &samlp.AttributeQueryType{Id: vrtStr("aq.Id"), Version: "2.0", IssueInstant: vrtStr("aq.IssueInstant")}
	vrtAssume(aq.Id != "")
	aq.Issuer = vrtIssuerOf(string(doc.EntityID))
	aq.Subject.NameID = vrtIssuerOf(vrtStr("aq.subject"))
	if vrtBool("aq.hasDestination") {
		vrtCover("C07.attrquery-with-destination")
		aq.Destination = vrtIssuer + vrtAttrPath // the advertised AttributeService location
	}
	aq.Attribute = vrtRequestedAttrs(1)
	env := &soap.AttributeQueryEnvelope{}
	env.Body.AttributeQuery = aq
	rb := vrtNewRequest("req", "POST", vrtAttrPath)
	vrtReqNoExtras(rb)
	vrtReqBody(rb, vrtWireXML(env), false)
	rp, panicked := vrtServe(p, rb)
	if panicked {
		vrtOutcome("panic")
		vrtPanicked("C07.conformant-attribute-query-is-answered")
		return
	}
	d := vrtDecodeSOAPResponse(rp)
	vrtOutcome(rp.Kind)
	vrtAssert("C07.conformant-attribute-query-succeeds", d.decoded && d.resp.Status.StatusCode.Value == StatusCodeSuccess)
}
