package provider

import (
	"net/http"

	"github.com/zitadel/saml/pkg/provider/serviceprovider"
	"github.com/zitadel/saml/pkg/provider/xml"
	"github.com/zitadel/saml/pkg/provider/xml/md"
	"github.com/zitadel/saml/pkg/provider/xml/samlp"
)

// Registration API (C09), decompression bound (C14), codec (C18), issuer
// validation and derivation (C19).

func init() {
	vrtHarnesses["HarnessRegistration"] = HarnessRegistration
	vrtHarnesses["HarnessC14"] = HarnessC14
	vrtHarnesses["HarnessC18"] = HarnessC18
	vrtHarnesses["HarnessC19Static"] = HarnessC19Static
	vrtHarnesses["HarnessC19Dynamic"] = HarnessC19Dynamic
}

// HarnessRegistration: every byte string offered as service-provider metadata
// (a string that is no document, or any EntityDescriptor value) is processed
// without a panic.
func HarnessRegistration() {
	var meta string
	if vrtBool("metadata.garbage") {
		meta = vrtStr("metadata.raw")
		vrtAssume(vrtUndecodable(meta))
	} else {
		doc := &md.EntityDescriptorType{}
		vrtLazy(doc, "sp")
		meta = vrtWireXML(doc)
	}
	var err error
	var sp *serviceprovider.ServiceProvider
	panicked := vrtTry(func() {
		sp, err = serviceprovider.NewServiceProvider("app", &serviceprovider.Config{Metadata: []byte(meta)}, func(id string) string { return id })
	})
	if panicked {
		vrtOutcome("panic")
		vrtPanicked("C09.no-panic-in-registration")
		return
	}
	if err != nil {
		vrtOutcome("error")
		vrtCover("registration.error")
	} else {
		vrtOutcome("registered")
		vrtCover("registration.ok")
		vrtAssert("C09.registered-provider-is-usable", sp != nil && sp.Metadata != nil)
	}
}

// HarnessC14: a compressed payload whose inflated size is arbitrary (the
// compressed size does not bound it) never makes the IdP materialise more than
// 32 MiB, and an oversized request is not accepted. The payload is padding
// only, or a complete conformant request followed by a padding comment (what a
// truncating reader would still accept); it is framed as a raw DEFLATE stream
// or wrapped as zlib / gzip (what a lenient decoder might fall back to).
func HarnessC14() {
	st := &vrtStore{noFaults: true}
	st.respCert, st.respKey = vrtIdPKeyPair("idpkey")
	vrtAssume(vrtBool("idpkey.cert.valid"))
	vrtAssume(vrtBool("idpkey.match"))
	st.created = &vrtAuthReq{id: vrtStr("created.id")}
	vrtNominalSigAlg = true
	p := vrtNewProviderWith(st, false)
	n := vrtIntRange("inflated.length", 0, 1<<40)
	pad := vrtRepeat("A", n)
	route := vrtChoice("route", 3)
	payload := pad
	padded := vrtChoice("payload.shape", 2) == 1
	if padded {
		sp, doc, _ := vrtConformantSPn(false, 0)
		vrtAssume(!vrtXSTrue(doc.SPSSODescriptor.AuthnRequestsSigned))
		st.sp = sp
		wire := ""
		if route == 2 {
			lr := &samlp.LogoutRequestType{Id: vrtStr("logout.Id"), Version: "2.0"}
			vrtAssume(lr.Id != "")
			lr.Issuer = vrtIssuerOf(string(doc.EntityID))
			lr.NameID = vrtIssuerOf(vrtStr("logout.NameID"))
			lr.IssueInstant = vrtTimestamp("logout.issueInstant", DefaultTimeFormat)
			okI, _ := vrtTimeParse(DefaultTimeFormat, lr.IssueInstant)
			vrtAssume(okI)
			wire = vrtWireXML(lr)
		} else {
			a := &samlp.AuthnRequestType{Id: vrtStr("authn.Id"), Version: "2.0"}
			vrtAssume(a.Id != "")
			a.Issuer = vrtIssuerOf(string(doc.EntityID))
			wire = vrtWireXML(a)
		}
		payload = wire + "<!--" + pad + "-->"
	}
	var stream string
	switch vrtChoice("payload.framing", 3) {
	case 0:
		stream = vrtDeflate(payload)
	case 1:
		stream = vrtZlib(payload)
	default:
		stream = vrtGzip(payload)
	}
	encoded := vrtB64(stream)
	var rb *vrtReq
	switch route {
	case 0: // SSO, Redirect binding (query)
		rb = vrtNewRequest("req", "GET", vrtSSOPath)
		vrtReqNoExtras(rb)
		vrtReqParam(rb, "SAMLRequest", true, encoded, false, "")
	case 1: // SSO, form body with explicit encoding
		rb = vrtNewRequest("req", "POST", vrtSSOPath)
		vrtReqNoExtras(rb)
		vrtReqParam(rb, "SAMLRequest", false, "", true, encoded)
		vrtReqParam(rb, "SAMLEncoding", false, "", true, xml.EncodingDeflate)
	default: // logout
		rb = vrtNewRequest("req", "POST", vrtSLOPath)
		vrtReqNoExtras(rb)
		vrtReqParam(rb, "SAMLRequest", false, "", true, encoded)
		vrtReqParam(rb, "SAMLEncoding", false, "", true, xml.EncodingDeflate)
	}
	vrtAssume(!vrtBool("req.parsefail"))
	vrtAllocStart()
	rp, panicked := vrtServe(p, rb)
	if panicked {
		vrtOutcome("panic")
		return
	}
	vrtOutcome(rp.Kind)
	if vrtMaterialisations() > 0 {
		vrtCover("C14.inflated")
	}
	vrtAssert("C14.materialised-bytes-bounded", vrtMaterialisedWithin(vrtInflateBound))
	accepted := st.count("CreateAuthRequest") > 0
	if route == 2 {
		d := vrtDecodeLogoutResponse(rp)
		accepted = d.decoded && d.resp.Status.StatusCode.Value == StatusCodeSuccess
	}
	if accepted {
		vrtOutcome("accepted")
		if padded {
			vrtCover("C14.padded-request-accepted-when-small")
		}
	}
	vrtAssert("C14.oversized-request-not-accepted", !accepted || n <= vrtInflateBound)
}

// HarnessC18: the codec functions.
func HarnessC18() {
	switch vrtChoice("case", 2) {
	case 0:
		// an unrecognised encoding identifier is an error, never a pass-through
		enc := vrtStr("encoding")
		vrtAssume(enc != "")
		vrtAssume(enc != xml.EncodingDeflate)
		msg := vrtStr("message")
		_, err := xml.InflateAndDecode(enc, vrtBool("b64"), msg)
		vrtCover("C18.unknown-encoding")
		vrtAssert("C18.unknown-encoding-is-an-error", err != nil)
	default:
		// DEFLATE+base64 followed by the decoder returns the original bytes
		data := vrtStr("data")
		enc, err := xml.DeflateAndBase64([]byte(data))
		vrtAssert("C18.encoder-succeeds", err == nil)
		if err != nil {
			return
		}
		// the encoder is used by all requests: another message is encoded before this
		// one is decoded (the result must not depend on what the encoder does later)
		other := vrtStr("otherdata")
		vrtAssume(other != data)
		if _, err2 := xml.DeflateAndBase64([]byte(other)); err2 != nil {
			vrtAssert("C18.encoder-succeeds", false)
		}
		out, err := xml.InflateAndDecode(xml.EncodingDeflate, true, string(enc))
		vrtCover("C18.roundtrip")
		// the original bytes or (beyond 1 MiB, where a decompression limit may apply) an error - never other bytes
		if vrtLenBound(data, 1<<20) {
			vrtAssert("C18.roundtrip-returns-the-original-bytes", err == nil && string(out) == data)
		} else {
			vrtAssert("C18.roundtrip-returns-the-original-bytes", err != nil || string(out) == data)
		}
	}
}

// vrtSymURL: an issuer built from components over unambiguous alphabets, or a
// string no URL parser accepts, or the empty string.
func vrtSymURL(name string) (u, scheme, host, path, query, frag string, parses bool) {
	switch vrtChoice(name+".kind", 3) {
	case 0:
		return "", "", "", "", "", "", true
	case 1:
		return vrtBadURL(), "", "", "", "", "", false
	}
	scheme = vrtStr(name + ".scheme")
	vrtAssume(vrtInSet(scheme, "https", "http", "ftp", ""))
	host, path, query, frag = vrtStr(name+".host"), vrtStr(name+".path"), vrtStr(name+".query"), vrtStr(name+".fragment")
	vrtAssume(vrtMatches(host, "hostchars"))
	vrtAssume(vrtMatches(path, "pathchars"))
	vrtAssume(vrtMatches(query, "querychars"))
	vrtAssume(vrtMatches(frag, "querychars"))
	// a host needs a scheme in front of it to be read as one
	vrtAssume(scheme != "" || host == "")
	// ... and a path behind a host starts with a slash (otherwise it reads as part of the host)
	vrtAssume(host == "" || path == "" || vrtHasPrefix(path, "/"))
	return vrtURL(scheme, host, path, query, frag), scheme, host, path, query, frag, true
}

// HarnessC19Static: a provider with a static issuer can be constructed only if
// the issuer is an absolute URL with a host, without query or fragment, and
// with scheme https (http only in insecure mode).
func HarnessC19Static() {
	u, scheme, host, _, query, frag, parses := vrtSymURL("issuer")
	insecure := vrtBool("insecure")
	st := &vrtStore{noFaults: true}
	conf := &Config{IDPConfig: &IdentityProviderConfig{SignatureAlgorithm: vrtRSASHA256}}
	var opts []Option
	if insecure {
		opts = append(opts, WithAllowInsecure())
	}
	p, err := NewProvider(st, StaticIssuer(u), conf, opts...)
	errV := ValidateIssuer(u, insecure)
	vrtAssert("C19.provider-construction-agrees-with-validation", (err == nil) == (errV == nil))
	if err == nil {
		vrtCover("C19.static-accepted")
		vrtOutcome("accepted")
		vrtAssert("C19.static-issuer-not-empty", u != "")
		vrtAssert("C19.static-issuer-parses", parses)
		vrtAssert("C19.static-issuer-has-host", host != "")
		vrtAssert("C19.static-issuer-https-or-insecure-http", scheme == "https" || insecure && scheme == "http")
		vrtAssert("C19.static-issuer-no-fragment", frag == "")
		vrtAssert("C19.static-issuer-no-query", query == "")
		vrtAssert("C19.provider-built", p != nil)
	} else {
		vrtOutcome("rejected")
	}
}

// HarnessC19Dynamic: a host-derived issuer is scheme + "://" + first forwarded
// host (else the request Host) + the configured path with a leading slash.
func HarnessC19Dynamic() {
	path := vrtStr("path")
	vrtAssume(vrtMatches(path, "pathchars"))
	insecure := vrtBool("insecure")
	custom := vrtBool("customHeader")
	var factory func(bool) (IssuerFromRequest, error)
	hdrName := "Forwarded"
	if custom {
		hdrName = "X-Forwarded-Host-List"
		factory = IssuerFromForwardedOrHost(path, WithIssuerFromCustomHeaders("x-forwarded-host-list"))
	} else {
		factory = IssuerFromForwardedOrHost(path)
	}
	f, err := factory(insecure)
	if err != nil {
		vrtOutcome("rejected")
		return
	}
	rb := vrtNewRequest("req", "GET", "/metadata")
	reqHost := vrtStr("req.host")
	vrtReqHost(rb, reqHost)
	// 0..2 values of the forwarding header: host=<h>, an element without host, or malformed
	n := vrtChoice("forwarded#", 3)
	var vals []string
	expectHost, haveHost, broken := "", false, false
	for i := 0; i < n; i++ {
		switch vrtChoice("forwarded.kind_"+string(rune('0'+i)), 3) {
		case 0:
			h := vrtStr("forwarded.host", i)
			vrtAssume(vrtMatches(h, "hosttoken"))
			vals = append(vals, "host="+h)
			if !haveHost {
				expectHost, haveHost = h, true
			}
		case 1:
			vals = append(vals, "for=192.0.2.1")
		default:
			vals = append(vals, vrtBadForwarded())
			broken = true
		}
	}
	vrtReqHeader(rb, hdrName, vals)
	if custom && vrtBool("unconfigured.forwarded?") {
		// with custom headers configured the standard Forwarded header is not a configured source
		h := vrtStr("unconfigured.forwarded.host")
		vrtAssume(vrtMatches(h, "hosttoken"))
		vrtReqHeader(rb, "Forwarded", []string{"host=" + h})
	}
	// other request-derived components must not flow in
	vrtReqHeader(rb, "X-Forwarded-Proto", []string{vrtStr("req.proto")})
	r := vrtReqBuild(rb)
	r.URL.Scheme = vrtStr("req.urlscheme")
	got := f(r)
	vrtCover("C19.dynamic")
	vrtOutcome("derived")
	scheme := "https"
	if insecure {
		scheme = "http"
	}
	want := path
	if len(path) > 0 && !vrtHasPrefix(path, "/") {
		want = "/" + path
	}
	if broken {
		// a parser error on the header falls back to the request host
		vrtAssert("C19.dynamic-issuer-falls-back-to-host-on-malformed-header", got == scheme+"://"+reqHost+want)
		return
	}
	if haveHost {
		vrtAssert("C19.dynamic-issuer-uses-first-forwarded-host", got == scheme+"://"+expectHost+want)
	} else {
		vrtAssert("C19.dynamic-issuer-uses-request-host", got == scheme+"://"+reqHost+want)
	}
}

var _ = http.MethodGet
