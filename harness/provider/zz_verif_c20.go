package provider

import (
	"errors"
	"fmt"

	"github.com/zitadel/saml/pkg/provider/checker"
)

// C20 — validation chains stop at the first failure and report it exactly once.
//
// (a) direct: a chain of n steps, every step's kind a symbolic choice among the
// eight constructors, every parameter symbolic; the trace of closure
// invocations and the result are compared with the statement.
//
// Event codes: step*10 + {1 value/logic, 2 failure callback, 3 condition, 4 "equal" getter}.

func init() { vrtHarnesses["HarnessC20"] = HarnessC20 }

func HarnessC20() {
	maxLen := vrtBound("C20 chain length", 3, 4)
	n := vrtChoice("n", maxLen+1)
	var trace []int
	c := &checker.Checker{}
	fails := make([]bool, n)
	condFalse := make([]bool, n)
	needsEval := make([]bool, n) // the step's documented condition depends on a closure
	for i := 0; i < n; i++ {
		needsEval[i] = true
		i := i
		kind := vrtChoice(fmt.Sprintf("kind%d", i), 8)
		val := vrtStr("val", i)
		cb := func() { trace = append(trace, i*10+2) }
		valueF := func() string { trace = append(trace, i*10+1); return val }
		switch kind {
		case 0:
			c.WithValueNotEmptyCheck("v", valueF, cb)
			fails[i] = val == ""
		case 1:
			m := vrtChoice(fmt.Sprintf("nvals%d", i), 3)
			vals := make([]string, m)
			anyEmpty := false
			for j := range vals {
				vals[j] = vrtStr("vals", i, j)
				anyEmpty = vrtOr(anyEmpty, vals[j] == "")
			}
			c.WithValuesNotEmptyCheck(func() []string { trace = append(trace, i*10+1); return vals }, cb)
			fails[i] = anyEmpty
		case 2:
			minl := vrtIntRange(fmt.Sprintf("min%d", i), -1, 3)
			maxl := vrtIntRange(fmt.Sprintf("max%d", i), -1, 3)
			c.WithValueLengthCheck("v", valueF, minl, maxl, cb)
			fails[i] = vrtOr(vrtAnd(minl > 0, len(val) < minl), vrtAnd(maxl > 0, len(val) > maxl))
			// with both bounds zero the rule does not depend on the value
			needsEval[i] = vrtOr(minl > 0, maxl > 0)
		case 3:
			eq := vrtStr("eq", i)
			c.WithValueEqualsCheck("v", valueF, func() string { trace = append(trace, i*10+4); return eq }, cb)
			fails[i] = val != eq
		case 4:
			cond := vrtBool("cond", i)
			c.WithConditionalValueNotEmpty(func() bool { trace = append(trace, i*10+3); return cond }, "v", valueF, cb)
			fails[i] = vrtAnd(cond, val == "")
			condFalse[i] = !cond
		case 5:
			cond := vrtBool("cond", i)
			lerr := vrtBool("lerr", i)
			c.WithConditionalLogicStep(func() bool { trace = append(trace, i*10+3); return cond },
				func() error {
					trace = append(trace, i*10+1)
					if lerr {
						return errors.New("e")
					}
					return nil
				}, cb)
			fails[i] = vrtAnd(cond, lerr)
			condFalse[i] = !cond
		case 6:
			lerr := vrtBool("lerr", i)
			c.WithLogicStep(func() error {
				trace = append(trace, i*10+1)
				if lerr {
					return errors.New("e")
				}
				return nil
			}, cb)
			fails[i] = lerr
		default:
			c.WithValueStep(func() { trace = append(trace, i*10+1) })
			fails[i] = false
		}
	}
	vrtAssert("C20.stepcount", c.StepCount() == n)

	res := c.CheckFailed()
	first := trace
	trace = nil

	// reference: index of the first failing step (n if none)
	failing := n
	for i := 0; i < n; i++ {
		if fails[i] {
			failing = i
			break
		}
	}
	if failing < n {
		vrtCover("C20.some-step-fails")
		vrtOutcome("fail")
	} else {
		vrtCover("C20.all-pass")
		vrtOutcome("pass")
	}
	vrtAssert("C20.result-iff-some-step-failed", res == (failing < n))
	vrtC20CheckTrace("C20", first, n, failing, condFalse, needsEval)

	// re-evaluating the chain repeats the same behaviour
	res2 := c.CheckFailed()
	vrtAssert("C20.idempotent-result", res2 == res)
	same := len(trace) == len(first)
	if same {
		for k := range first {
			if trace[k] != first[k] {
				same = false
			}
		}
	}
	vrtAssert("C20.idempotent-trace", same)
}

// vrtC20CheckTrace compares a trace with the statement of C20.
func vrtC20CheckTrace(id string, tr []int, n, failing int, condFalse, needsEval []bool) {
	last := failing
	if last >= n {
		last = n - 1
	}
	// order: step indices never decrease; nothing after the failing step; callbacks only for it
	prevStep := 0
	callbacks := 0
	evaluated := make([]bool, n)
	logicRun := make([]bool, n)
	okOrder, okNoLater, okCallback := true, true, true
	for k, ev := range tr {
		step, what := ev/10, ev%10
		if step < prevStep {
			okOrder = false
		}
		prevStep = step
		if step > last {
			okNoLater = false
		}
		if what == 2 {
			callbacks++
			if step != failing || k != len(tr)-1 {
				okCallback = false
			}
		} else if step < n {
			evaluated[step] = true
			if what == 1 {
				logicRun[step] = true
			}
		}
	}
	vrtAssert(id+".order", okOrder)
	vrtAssert(id+".nothing-after-first-failure", okNoLater)
	if failing < n {
		vrtAssert(id+".callback-exactly-once-and-last", okCallback && callbacks == 1)
	} else {
		vrtAssert(id+".no-callback-without-failure", callbacks == 0)
	}
	allEval, condGuard := true, true
	for i := 0; i <= last && i < n; i++ {
		if !evaluated[i] && needsEval[i] {
			allEval = false
		}
		if condFalse[i] && logicRun[i] {
			condGuard = false
		}
	}
	vrtAssert(id+".every-step-up-to-failure-evaluated", allEval)
	vrtAssert(id+".condition-false-skips-check", condGuard)
}
