package provider

import (
	"github.com/zitadel/saml/pkg/provider/xml/saml"
)

type vrtAttr struct {
	name, format, friendly string
	values                 []string
}

// vrtExpectedAttributes is the user's data as the statement describes it: each
// non-empty standard attribute under its fixed name, plus every custom attribute.
func vrtExpectedAttributes(u *vrtUser) []vrtAttr {
	const basic = "urn:oasis:names:tc:SAML:2.0:attrname-format:basic"
	var out []vrtAttr
	std := []struct{ name, val string }{
		{"Email", u.email}, {"SurName", u.surname}, {"FirstName", u.givenName},
		{"FullName", u.fullName}, {"UserName", u.username}, {"UserID", u.userID},
	}
	for _, s := range std {
		if s.val != "" {
			out = append(out, vrtAttr{name: s.name, format: basic, values: []string{s.val}})
		}
	}
	for i := 0; i < u.nCustom; i++ {
		out = append(out, vrtAttr{name: u.cName[i], format: u.cFormat[i], friendly: u.cFriendly[i], values: u.cValues[i]})
	}
	return out
}

func vrtAttrEqual(e vrtAttr, a *saml.AttributeType) bool {
	if a == nil || len(a.AttributeValue) != len(e.values) {
		return false
	}
	ok := vrtAnd(a.Name == e.name, a.NameFormat == e.format, a.FriendlyName == e.friendly)
	for i := range e.values {
		ok = vrtAnd(ok, a.AttributeValue[i] == e.values[i])
	}
	return ok
}

// vrtSameAttributes: the two lists describe the same attributes (compared as
// sets of (Name, NameFormat, FriendlyName, value list) with equal cardinality;
// the order of attributes is free, the order inside a value list is not).
func vrtSameAttributes(exp []vrtAttr, got []*saml.AttributeType) bool {
	if len(exp) != len(got) {
		return false
	}
	all := true
	for _, e := range exp {
		found := false
		for _, g := range got {
			found = vrtOr(found, vrtAttrEqual(e, g))
		}
		all = vrtAnd(all, found)
	}
	for _, g := range got {
		found := false
		for _, e := range exp {
			found = vrtOr(found, vrtAttrEqual(e, g))
		}
		all = vrtAnd(all, found)
	}
	return all
}

func vrtC03Attributes(u *vrtUser, got []*saml.AttributeType) {
	vrtAssert("C03.attributes-are-exactly-the-users", vrtSameAttributes(vrtExpectedAttributes(u), got))
}
