package provider

// C04 — every signature the IdP emits verifies under a conformant verifier
// (composition level, see DESIGN §5 C04): what is signed is what is sent.

const (
	vrtRSASHA1   = "http://www.w3.org/2000/09/xmldsig#rsa-sha1"
	vrtRSASHA256 = "http://www.w3.org/2001/04/xmldsig-more#rsa-sha256"
	vrtRSASHA512 = "http://www.w3.org/2001/04/xmldsig-more#rsa-sha512"
)

func vrtC04Callback(st *vrtStore, ar *vrtAuthReq, rp vrtReply, d vrtDelivery, success bool) {
	// in scope: stored requests with binding POST or Redirect (what the SSO
	// endpoint persists for an answerable request), any consumer URL
	if !success || !(ar.binding == PostBinding || ar.binding == RedirectBinding) {
		return
	}
	cert := string(st.respCert)
	switch d.via {
	case "form", "body":
		a := &d.resp.Assertion
		vrtCover("C04.enveloped-success")
		vrtAssert("C04.success-assertion-is-signed", a.Signature != nil)
		if a.Signature != nil {
			vrtFinding("C04.xmlsig-digests-text-unescaped", vrtC14NSensitive(a))
			vrtAssert("C04.enveloped-signature-verifies-on-the-wire", vrtEnvelopedValid(a, a.Signature, cert))
			ki := a.Signature.KeyInfo
			vrtAssert("C04.keyinfo-is-the-published-certificate", ki != nil && len(ki.X509Data) == 1 && ki.X509Data[0].X509Certificate == vrtB64(cert))
		}
	case "redirect":
		vrtCover("C04.redirect-success")
		rawSig, hasSig, nSig := vrtQueryRaw(d.query, "Signature")
		rawAlg, hasAlg, nAlg := vrtQueryRaw(d.query, "SigAlg")
		vrtAssert("C04.redirect-success-is-signed", hasSig && hasAlg && nSig == 1 && nAlg == 1)
		if !(hasSig && hasAlg) {
			return
		}
		// the SAML HTTP-Redirect verification procedure applied to the URL sent
		octets := "SAMLResponse=" + d.rawResp
		if d.hasRelay {
			octets += "&RelayState=" + d.rawRelay
		}
		octets += "&SigAlg=" + rawAlg
		alg, okA := vrtUnescape(rawAlg)
		sigB64, okS := vrtUnescape(rawSig)
		vrtAssert("C04.redirect-sigalg-is-an-algorithm-uri", okA && vrtInSet(alg, vrtRSASHA1, vrtRSASHA256, vrtRSASHA512))
		sig, okB := vrtUnB64(sigB64)
		vrtAssert("C04.redirect-signature-is-base64", okS && okB)
		if okA && okS && okB {
			vrtAssert("C04.redirect-signature-verifies-over-the-url-sent", vrtRedirectSigValid(octets, alg, sig, cert))
		}
	}
}
