package provider

// Replay entry point: runs harness functions natively on solver models.
// Compiled only through `go test -overlay` (never part of /repo).

import (
	"encoding/json"
	"fmt"
	"os"
	"testing"
	"time"
)

type vrtCase struct {
	Harness string            `json:"harness"`
	Tier    string            `json:"tier"`
	Prop    string            `json:"prop"`
	Model   map[string]vrtVal `json:"model"`
}

type vrtResult struct {
	Failed   []string `json:"failed"`
	Regions  []string `json:"regions"`
	Outcomes []string `json:"outcomes"`
	Covers   []string `json:"covers"`
	Invalid  string   `json:"invalid"`
	Panic    string   `json:"panic"`
}

func vrtRunCase(c vrtCase) (res vrtResult) {
	vrtCur = &vrtRun{model: c.Model, tier: c.Tier, prop: c.Prop, start: time.Now()}
	vrtIssuer, vrtHostIssuer, vrtMetaSign, vrtQuiet = vrtStaticIssuer, false, false, false
	defer func() {
		if r := recover(); r != nil {
			if s, ok := r.(vrtStop); ok {
				res.Invalid = s.why
			} else {
				res.Panic = fmt.Sprint(r) + " @ " + vrtPanicSite()
			}
		}
		res.Failed = vrtCur.failed
		res.Regions = vrtCur.regions
		res.Outcomes = vrtCur.outcomes
		res.Covers = vrtCur.covers
	}()
	h, ok := vrtHarnesses[c.Harness]
	if !ok {
		panic(vrtStop{"unknown harness " + c.Harness})
	}
	h()
	return
}

func TestVrtReplay(t *testing.T) {
	in := os.Getenv("VRT_CASES")
	if in == "" {
		t.Skip("no VRT_CASES")
	}
	data, err := os.ReadFile(in)
	if err != nil {
		t.Fatal(err)
	}
	var cases []vrtCase
	if err := json.Unmarshal(data, &cases); err != nil {
		t.Fatal(err)
	}
	results := make([]vrtResult, len(cases))
	for i, c := range cases {
		results[i] = vrtRunCase(c)
	}
	out, _ := json.MarshalIndent(results, "", " ")
	if err := os.WriteFile(os.Getenv("VRT_RESULTS"), out, 0o644); err != nil {
		t.Fatal(err)
	}
}
