package provider

// Native bodies of the environment part of the harness runtime: requests,
// response recorder, observation, wire encodings, keys, clock. Under the
// symbolic executor every function here is intercepted by name.

import (
	"bytes"
	"compress/flate"
	"compress/gzip"
	"compress/zlib"
	"crypto"
	"crypto/rsa"
	"crypto/sha1"
	"crypto/sha256"
	"crypto/sha512"
	"crypto/x509"
	"encoding/base64"
	"encoding/xml"
	"errors"
	"fmt"
	htmltemplate "html/template"
	"io"
	"net/http"
	"net/http/httptest"
	"net/url"
	"reflect"
	"runtime"
	"sort"
	"strings"
	"time"

	"github.com/beevik/etree"
	"github.com/gorilla/mux"
	dsig "github.com/russellhaering/goxmldsig"
)

// ---- requests

type vrtReqParamV struct {
	key        string
	qHas, bHas bool
	qVal, bVal string
	qRaw       *string // raw text in the query (nil: url.QueryEscape(qVal))
}

type vrtReq struct {
	name, method, path string
	params             []vrtReqParamV
	body               string
	hasBody, bodyFail  bool
	noExtras           bool
	host               *string
	headers            map[string][]string
}

func vrtNewRequest(name, method, path string) *vrtReq {
	return &vrtReq{name: name, method: method, path: path}
}

func vrtReqParam(rb *vrtReq, key string, inQuery bool, qv string, inBody bool, bv string) {
	if inBody && !(rb.method == "POST" || rb.method == "PUT" || rb.method == "PATCH") {
		panic(vrtStop{"body parameter on a method without form body"})
	}
	rb.params = append(rb.params, vrtReqParamV{key, inQuery, inBody, qv, bv, nil})
}

// vrtReqParamRaw places a query parameter with the given raw (percent-encoded)
// text; val is what that text decodes to.
func vrtReqParamRaw(rb *vrtReq, key string, has bool, raw, val string) {
	if got, err := url.QueryUnescape(raw); err != nil || got != val {
		panic(vrtStop{"raw query text does not decode to the value"})
	}
	rb.params = append(rb.params, vrtReqParamV{key: key, qHas: has, qVal: val, qRaw: &raw})
}

// vrtEscapeStyle percent-encodes s for a query string in one of the legal
// styles: 0 Go's url.QueryEscape, 1 lower-case hex digits, 2 "%20" for a blank.
func vrtEscapeStyle(style int, s string) string {
	e := url.QueryEscape(s)
	switch style {
	case 1:
		b := []byte(e)
		for i := 0; i+2 < len(b); i++ {
			if b[i] == '%' {
				for j := i + 1; j <= i+2; j++ {
					if b[j] >= 'A' && b[j] <= 'F' {
						b[j] += 'a' - 'A'
					}
				}
				i += 2
			}
		}
		return string(b)
	case 2:
		return strings.ReplaceAll(e, "+", "%20")
	}
	return e
}

func vrtReqBody(rb *vrtReq, raw string, failRead bool) {
	rb.body, rb.hasBody, rb.bodyFail = raw, true, failRead
}

func vrtReqNoExtras(rb *vrtReq)         { rb.noExtras = true }
func vrtReqHost(rb *vrtReq, host string) { rb.host = &host }

type vrtErrReader struct{}

func (vrtErrReader) Read([]byte) (int, error) { return 0, errors.New("vrt: body read fails") }
func (vrtErrReader) Close() error             { return nil }

func vrtReqBuild(rb *vrtReq) *http.Request {
	if rb.method == "OPTIONS" {
		panic(vrtStop{"OPTIONS is answered by the CORS middleware"})
	}
	params := append([]vrtReqParamV{}, rb.params...)
	explicit := map[string]bool{}
	for _, p := range params {
		explicit[p.key] = true
	}
	hdr := http.Header{}
	if !rb.noExtras {
		// arbitrary further parameters the solver chose
		extra := map[string]*vrtReqParamV{}
		var keys []string
		for k := range vrtCur.model {
			for _, src := range []string{".q.", ".b."} {
				pre := rb.name + src
				if strings.HasPrefix(k, pre) && strings.HasSuffix(k, "?") {
					key := strings.TrimSuffix(strings.TrimPrefix(k, pre), "?")
					if explicit[key] {
						continue
					}
					if extra[key] == nil {
						extra[key] = &vrtReqParamV{key: key}
						keys = append(keys, key)
					}
					if src == ".q." {
						extra[key].qHas, extra[key].qVal = vrtBool(k), vrtStr(pre+key)
					} else {
						extra[key].bHas, extra[key].bVal = vrtBool(k), vrtStr(pre+key)
					}
				}
			}
		}
		sort.Strings(keys)
		for _, k := range keys {
			params = append(params, *extra[k])
		}
	}
	for k, v := range rb.headers {
		hdr[k] = v
	}
	for k := range vrtCur.model {
		if rb.headers != nil {
			break
		}
		pre := rb.name + ".h."
		if strings.HasPrefix(k, pre) && strings.HasSuffix(k, "?") && vrtBool(k) {
			key := strings.TrimSuffix(strings.TrimPrefix(k, pre), "?")
			n := vrtInt(pre + key + "#")
			if n < 1 {
				n = 1
			}
			for i := 0; i < n; i++ {
				hdr[key] = append(hdr[key], vrtStr(fmt.Sprintf("%s%s[%d]", pre, key, i)))
			}
		}
	}
	var q, b []string
	if vrtBool(rb.name + ".parsefail") {
		q = append(q, "vrtbad=%zz")
	}
	for _, p := range params {
		if p.qHas {
			if p.qRaw != nil {
				q = append(q, url.QueryEscape(p.key)+"="+*p.qRaw)
			} else {
				q = append(q, url.QueryEscape(p.key)+"="+url.QueryEscape(p.qVal))
			}
		}
		if p.bHas {
			if !(rb.method == "POST" || rb.method == "PUT" || rb.method == "PATCH") {
				panic(vrtStop{"body parameter on a method without form body"})
			}
			b = append(b, url.QueryEscape(p.key)+"="+url.QueryEscape(p.bVal))
		}
	}
	host := vrtStr(rb.name + ".host")
	if rb.host != nil {
		host = *rb.host
	}
	r := &http.Request{
		Method: rb.method, URL: &url.URL{Path: rb.path, RawQuery: strings.Join(q, "&")},
		Proto: "HTTP/1.1", ProtoMajor: 1, ProtoMinor: 1, Header: hdr, Host: host,
	}
	switch {
	case rb.hasBody && rb.bodyFail:
		r.Body = vrtErrReader{}
	case rb.hasBody:
		r.Body = io.NopCloser(strings.NewReader(rb.body))
		r.ContentLength = int64(len(rb.body))
	default:
		body := strings.Join(b, "&")
		r.Body = io.NopCloser(strings.NewReader(body))
		r.ContentLength = int64(len(body))
		if _, ok := hdr["Content-Type"]; !ok || len(b) > 0 {
			hdr["Content-Type"] = []string{"application/x-www-form-urlencoded"}
		}
	}
	return r
}

func vrtNewWriter() http.ResponseWriter { return httptest.NewRecorder() }

// vrtReply is what one request produced, classified.
type vrtReply struct {
	Kind string // redirect | error | empty | form | xml | json | pem | other
	Code int
	// form
	TemplateOK   bool
	Action       string
	RelayState   string
	SAMLResponse string
	// redirect
	Location string
	// error
	Text string
	// any
	Body               string
	Docs               int // XML documents in the body
	Forms              int // auto-submit forms in the body
	WriteHeaderCalls   int
	ContentType        string
	ContentDisposition string
	PemType            string
	PemBytes           string
}

func vrtObserve(w http.ResponseWriter) vrtReply {
	rec := w.(*httptest.ResponseRecorder)
	res := rec.Result()
	body := rec.Body.String()
	rp := vrtReply{Code: rec.Code, Body: body, ContentType: res.Header.Get("Content-Type"), ContentDisposition: res.Header.Get("Content-Disposition")}
	rp.Docs = vrtXMLDocs(body)
	rp.Forms = strings.Count(body, "<form")
	loc := res.Header.Get("Location")
	switch {
	case loc != "" && rec.Code >= 300 && rec.Code < 400:
		rp.Kind = "redirect"
		rp.Location = loc
	case rp.ContentType == "text/plain; charset=utf-8" && res.Header.Get("X-Content-Type-Options") == "nosniff" && rec.Code >= 400:
		rp.Kind = "error"
		rp.Text = strings.TrimSuffix(body, "\n")
	case body == "":
		rp.Kind = "empty"
	case rp.Forms == 1 && strings.HasPrefix(body, "\n<!DOCTYPE"):
		rp.Kind = "form"
		rp.Docs = 0
		vrtParseForm(&rp, body)
	case rp.Docs == 1 && strings.HasPrefix(body, xml.Header):
		rp.Kind = "xml"
	case strings.HasPrefix(body, "{") && strings.HasSuffix(body, "}\n"):
		rp.Kind = "json"
	case strings.HasPrefix(body, "-----BEGIN "):
		rp.Kind = "pem"
		rest := strings.TrimPrefix(body, "-----BEGIN ")
		if i := strings.Index(rest, "-----\n"); i >= 0 {
			rp.PemType = rest[:i]
			rest = rest[i+6:]
			if j := strings.Index(rest, "-----END "); j >= 0 {
				if der, err := base64.StdEncoding.DecodeString(strings.ReplaceAll(rest[:j], "\n", "")); err == nil {
					rp.PemBytes = string(der)
				}
			}
		}
	default:
		rp.Kind = "other"
	}
	return rp
}

// vrtParseForm tokenises the auto-submit page independently of html/template
// (the page is XHTML; the standard XML tokenizer in HTML mode is used) and
// checks that it is the module's fixed template with exactly three values.
func vrtParseForm(rp *vrtReply, body string) {
	d := xml.NewDecoder(strings.NewReader(body))
	d.Strict = false
	d.AutoClose = xml.HTMLAutoClose
	d.Entity = xml.HTMLEntity
	forms, inputs := 0, 0
	for {
		tok, err := d.Token()
		if err != nil {
			break
		}
		se, ok := tok.(xml.StartElement)
		if !ok {
			continue
		}
		attr := func(n string) string {
			for _, a := range se.Attr {
				if a.Name.Local == n {
					return a.Value
				}
			}
			return ""
		}
		switch se.Name.Local {
		case "form":
			forms++
			rp.Action = attr("action")
		case "input":
			if attr("type") == "hidden" {
				inputs++
				switch attr("name") {
				case "RelayState":
					rp.RelayState = attr("value")
				case "SAMLResponse":
					rp.SAMLResponse = attr("value")
				}
			}
		}
	}
	// the page must be exactly one of the module's templates rendered (by
	// html/template) with the recovered values
	ok := false
	for _, text := range []string{postTemplate, logoutTemplate} {
		t, err := htmltemplate.New("t").Parse(strings.NewReplacer(".AssertionConsumerServiceURL", ".A", ".LogoutURL", ".A", ".RelayState", ".R", ".SAMLResponse", ".S").Replace(text))
		if err != nil {
			continue
		}
		var buf bytes.Buffer
		if err := t.Execute(&buf, struct{ A, R, S string }{rp.Action, rp.RelayState, rp.SAMLResponse}); err == nil && buf.String() == body {
			ok = true
		}
	}
	rp.TemplateOK = ok && forms == 1 && inputs == 2
}

// ---- wire encodings

func vrtWireXML(v interface{}) string {
	b, err := xml.Marshal(v)
	if err != nil {
		panic(vrtStop{"cannot marshal harness message: " + err.Error()})
	}
	// bound: documents built by the harnesses are at most 1 MiB (larger payloads are C14's subject)
	vrtAssume(vrtLenBound(string(b), 1<<20))
	return string(b)
}

func vrtB64(s string) string { return base64.StdEncoding.EncodeToString([]byte(s)) }

func vrtDeflate(s string) string {
	var buf bytes.Buffer
	w, _ := flate.NewWriter(&buf, 9)
	w.Write([]byte(s))
	w.Close()
	return buf.String()
}

func vrtZlib(s string) string {
	var buf bytes.Buffer
	w := zlib.NewWriter(&buf)
	w.Write([]byte(s))
	w.Close()
	return buf.String()
}

func vrtGzip(s string) string {
	var buf bytes.Buffer
	w := gzip.NewWriter(&buf)
	w.Write([]byte(s))
	w.Close()
	return buf.String()
}

func vrtQueryEscape(s string) string { return url.QueryEscape(s) }

func vrtWellFormed(s string) bool {
	d := xml.NewDecoder(strings.NewReader(s))
	roots, depth := 0, 0
	for {
		tok, err := d.Token()
		if err == io.EOF {
			return roots >= 1 && depth == 0
		}
		if err != nil {
			return false
		}
		switch tok.(type) {
		case xml.StartElement:
			if depth == 0 {
				roots++
			}
			depth++
		case xml.EndElement:
			depth--
		}
	}
}

// vrtUndecodable: s is not an encoding of any XML document (neither plain nor
// base64, neither raw nor deflated).
func vrtUndecodable(s string) bool {
	cands := []string{s}
	if b, err := base64.StdEncoding.DecodeString(s); err == nil {
		cands = append(cands, string(b))
	}
	for _, c := range cands {
		if vrtWellFormed(c) {
			return false
		}
		if inf, ok := vrtInflate(c); ok && vrtWellFormed(inf) {
			return false
		}
	}
	return true
}

func vrtUnB64(s string) (string, bool) {
	b, err := base64.StdEncoding.DecodeString(s)
	return string(b), err == nil
}

func vrtInflate(s string) (string, bool) {
	r := flate.NewReader(strings.NewReader(s))
	defer r.Close()
	b, err := io.ReadAll(io.LimitReader(r, 64<<20))
	return string(b), err == nil
}

func vrtXMLTo(data string, v interface{}) bool {
	ok := xml.Unmarshal([]byte(data), v) == nil
	if ok && vrtProp("C18") {
		vrtAssert("C18.library-decoder-returns-the-values-put-in", vrtDecodedFaithfully(data, v))
	}
	return ok
}

// vrtDecodedFaithfully: every attribute value and every non-blank character
// data a generic XML parser finds in the document is a string the library's
// decoder put into the struct (the structs model every element the IdP emits).
func vrtDecodedFaithfully(data string, v interface{}) bool {
	// strings the decoder put into the struct, with multiplicity
	have := map[string]int{}
	var walk func(rv reflect.Value, depth int)
	walk = func(rv reflect.Value, depth int) {
		if depth > 40 {
			return
		}
		switch rv.Kind() {
		case reflect.String:
			have[rv.String()]++
		case reflect.Ptr, reflect.Interface:
			if !rv.IsNil() {
				walk(rv.Elem(), depth+1)
			}
		case reflect.Struct:
			for i := 0; i < rv.NumField(); i++ {
				walk(rv.Field(i), depth+1)
			}
		case reflect.Slice, reflect.Array:
			if rv.Kind() == reflect.Slice && rv.Type().Elem().Kind() == reflect.Uint8 {
				have[string(rv.Bytes())]++
				return
			}
			for i := 0; i < rv.Len(); i++ {
				walk(rv.Index(i), depth+1)
			}
		}
	}
	walk(reflect.ValueOf(v), 0)
	use := func(s string) bool {
		if have[s] == 0 {
			return false
		}
		have[s]--
		return true
	}
	d := xml.NewDecoder(strings.NewReader(data))
	type open struct {
		text     string
		children int
	}
	var stack []*open
	for {
		tok, err := d.RawToken()
		if err != nil {
			return true
		}
		switch t := tok.(type) {
		case xml.StartElement:
			for _, a := range t.Attr {
				if a.Name.Space == "xmlns" || a.Name.Local == "xmlns" {
					continue
				}
				if !use(a.Value) {
					return false
				}
			}
			if len(stack) > 0 {
				stack[len(stack)-1].children++
			}
			stack = append(stack, &open{})
		case xml.CharData:
			if len(stack) > 0 {
				stack[len(stack)-1].text += string(t)
			}
		case xml.EndElement:
			if len(stack) == 0 {
				return true
			}
			top := stack[len(stack)-1]
			stack = stack[:len(stack)-1]
			// the text of a leaf element is data (blank or not); text between child elements is layout
			if top.children == 0 && top.text != "" && !use(top.text) {
				return false
			}
			if top.children > 0 && strings.TrimSpace(top.text) != "" && !use(top.text) {
				return false
			}
		}
	}
}

// vrtLegalASCII: TAB, LF, CR and the printable ASCII characters (a subset of the legal XML characters).
func vrtLegalASCII(s string) bool {
	for i := 0; i < len(s); i++ {
		c := s[i]
		if !(c == '\t' || c == '\n' || c == '\r' || c >= 0x20 && c < 0x7f) {
			return false
		}
	}
	return true
}

func vrtXMLDocs(body string) int {
	d := xml.NewDecoder(strings.NewReader(body))
	d.Strict = false
	roots, depth := 0, 0
	for {
		tok, err := d.Token()
		if err != nil {
			return roots
		}
		switch tok.(type) {
		case xml.StartElement:
			if depth == 0 {
				roots++
			}
			depth++
		case xml.EndElement:
			if depth > 0 {
				depth--
			}
		}
	}
}

func vrtCutPrefix(s, p string) (string, bool) { return strings.CutPrefix(s, p) }

func vrtQueryRaw(q, key string) (string, bool, int) {
	val, found, n := "", false, 0
	for _, kv := range strings.Split(q, "&") {
		k, v, _ := strings.Cut(kv, "=")
		if k == key {
			n++
			if !found {
				val, found = v, true
			}
		}
	}
	return val, found, n
}

func vrtQueryKeys(q string) string {
	var ks []string
	for _, kv := range strings.Split(q, "&") {
		k, _, _ := strings.Cut(kv, "=")
		ks = append(ks, k)
	}
	return strings.Join(ks, ",")
}

func vrtUnescape(raw string) (string, bool) {
	s, err := url.QueryUnescape(raw)
	return s, err == nil
}

func vrtHexEscapeNonASCII(s string) string {
	var sb strings.Builder
	for i := 0; i < len(s); i++ {
		if s[i] >= 0x80 {
			fmt.Fprintf(&sb, "%%%02X", s[i])
		} else {
			sb.WriteByte(s[i])
		}
	}
	return sb.String()
}

// vrtSameURL: got is want, or want after exactly the normalisation that
// net/http.Redirect (hex-escaping of non-ASCII bytes) or html/template (URL
// normalisation inside an attribute) applies.
func vrtSameURL(got, want string) bool {
	if got == want || got == vrtHexEscapeNonASCII(want) {
		return true
	}
	t := htmltemplate.Must(htmltemplate.New("u").Parse(`<a href="{{.}}">x</a>`))
	var buf bytes.Buffer
	if err := t.Execute(&buf, want); err != nil {
		return false
	}
	d := xml.NewDecoder(&buf)
	d.Strict = false
	d.Entity = xml.HTMLEntity
	for {
		tok, err := d.Token()
		if err != nil {
			return false
		}
		if se, ok := tok.(xml.StartElement); ok && se.Name.Local == "a" {
			for _, a := range se.Attr {
				if a.Name.Local == "href" {
					return a.Value == got
				}
			}
		}
	}
}

// ---- payloads, URLs from components, explicit headers

// vrtRepeat is padding of a solver-chosen length. A length beyond the
// decompression bound is replayed with eight times the bound, so that the
// allocation it causes is unmistakable.
func vrtRepeat(s string, n int) string {
	if n < 0 {
		panic(vrtStop{"negative length"})
	}
	if n > vrtInflateBound {
		n = 8 * vrtInflateBound
	}
	return strings.Repeat(s, n)
}

const vrtInflateBound = 32 << 20

var vrtAllocMark uint64

func vrtAllocStart() {
	var ms runtime.MemStats
	runtime.ReadMemStats(&ms)
	vrtAllocMark = ms.TotalAlloc
}

// vrtMaterialisedWithin: natively the bytes materialised are bounded through
// the bytes allocated since vrtAllocStart (a reader that materialises n bytes
// allocates at least n).
func vrtMaterialisedWithin(limit int) bool {
	var ms runtime.MemStats
	runtime.ReadMemStats(&ms)
	return ms.TotalAlloc-vrtAllocMark <= uint64(limit)*5
}

func vrtMaterialisations() int { return 1 }

func vrtURL(scheme, host, path, query, frag string) string {
	u := ""
	if scheme != "" {
		u = scheme + ":"
	}
	if host != "" || scheme != "" {
		u += "//" + host
	}
	u += path
	if query != "" {
		u += "?" + query
	}
	if frag != "" {
		u += "#" + frag
	}
	return u
}

func vrtBadURL() string { return "%zz:not a url" }

func vrtBadForwarded() string { return "host=\"unterminated" }

func vrtReqHeader(rb *vrtReq, key string, vals []string) {
	if rb.headers == nil {
		rb.headers = map[string][]string{}
	}
	rb.headers[key] = vals
}

// ---- routing

func vrtFuncName(h http.Handler) string {
	if h == nil {
		return ""
	}
	v := reflect.ValueOf(h)
	if v.Kind() == reflect.Func {
		return runtime.FuncForPC(v.Pointer()).Name()
	}
	return fmt.Sprintf("%T", h)
}

// vrtRouteHandler: the name of the handler function the router dispatches path to.
func vrtRouteHandler(h http.Handler, path string) string {
	r, ok := h.(*mux.Router)
	if !ok {
		panic(vrtStop{"the provider's handler is not the mux router"})
	}
	var m mux.RouteMatch
	if !r.Match(&http.Request{Method: "GET", URL: &url.URL{Path: path}}, &m) || m.MatchErr != nil {
		return ""
	}
	return vrtFuncName(m.Handler)
}

// vrtRoutePaths: the literal paths the router serves.
func vrtRoutePaths(h http.Handler) []string {
	r, ok := h.(*mux.Router)
	if !ok {
		return nil
	}
	var out []string
	r.Walk(func(route *mux.Route, _ *mux.Router, _ []*mux.Route) error {
		if t, err := route.GetPathTemplate(); err == nil && !strings.Contains(t, "{") {
			out = append(out, t)
		}
		return nil
	})
	return out
}

// vrtRoutePathOf: the path under which the handler whose name contains name is registered.
func vrtRoutePathOf(h http.Handler, name string) (string, bool) {
	r, ok := h.(*mux.Router)
	if !ok {
		panic(vrtStop{"the provider's handler is not the mux router"})
	}
	path, found := "", false
	r.Walk(func(route *mux.Route, _ *mux.Router, _ []*mux.Route) error {
		if !found && strings.Contains(vrtFuncName(route.GetHandler()), name) {
			path, _ = route.GetPathTemplate()
			found = true
		}
		return nil
	})
	return path, found
}

// ---- clock

func vrtIsClockReading(ns int) bool {
	return int64(ns) >= vrtCur.start.Add(-time.Millisecond).UnixNano() && int64(ns) <= time.Now().UnixNano()
}

func vrtClockCount() int { return 1 }

func vrtSomeClockSatisfies(lo int, hasLo bool, hi int, hasHi bool) bool {
	a, b := vrtCur.start.UnixNano(), time.Now().UnixNano()
	if hasLo && int64(lo) > a {
		a = int64(lo)
	}
	if hasHi && int64(hi)-1 < b {
		b = int64(hi) - 1
	}
	return a <= b
}

func vrtAllClocksSatisfy(lo int, hasLo bool, hi int, hasHi bool) bool {
	a, b := vrtCur.start.Add(-time.Millisecond).UnixNano(), time.Now().UnixNano()
	return (!hasLo || int64(lo) <= a) && (!hasHi || b < int64(hi))
}

// vrtTimestamp is a timestamp string chosen by the solver: either a string
// the layout does not parse, or an instant placed relative to the first clock
// reading of the run (natively: relative to the real clock).
func vrtTimestamp(name, layout string) string {
	if !vrtBool(name + ".ok") {
		s := vrtStr(name)
		if _, err := time.Parse(layout, s); err == nil {
			panic(vrtStop{"solver string for " + name + " parses natively"})
		}
		return s
	}
	base := int64(0)
	if v, ok := vrtCur.model["clock!1"]; ok && v.I != nil {
		base = *v.I
	}
	off := int64(vrtInt(name+".ns")) - base
	const lim = int64(200 * 365 * 24 * time.Hour)
	if off > lim || off < -lim {
		panic(vrtStop{"timestamp offset out of the replayable range"})
	}
	s := vrtCur.start.Add(time.Duration(off)).UTC().Format(layout)
	if _, err := time.Parse(layout, s); err != nil {
		panic(vrtStop{"layout does not round-trip natively"})
	}
	return s
}

func vrtTimeParse(layout, s string) (bool, int) {
	t, err := time.Parse(layout, s)
	if err != nil {
		return false, 0
	}
	return true, int(t.UnixNano())
}

// ---- key material

func vrtMustB64(s string) []byte {
	b, err := base64.StdEncoding.DecodeString(s)
	if err != nil {
		panic(err)
	}
	return b
}

func vrtRSAKey(b64 string) *rsa.PrivateKey {
	k, err := x509.ParsePKCS1PrivateKey(vrtMustB64(b64))
	if err != nil {
		panic(err)
	}
	return k
}

// vrtCertText is the text of an X509Certificate element chosen by the solver:
// a valid certificate (of the chosen key type) or a string that is none.
func vrtCertText(name string, idx ...int) string {
	k := vrtKey(name, idx)
	if !vrtBool(k + ".valid") {
		s := vrtStr(k)
		if b, err := base64.StdEncoding.DecodeString(strings.Join(strings.Fields(s), "")); err == nil {
			if _, err := x509.ParseCertificate(b); err == nil {
				panic(vrtStop{"solver string is a certificate"})
			}
		}
		return s
	}
	switch vrtInt(k + ".keytype") {
	case 1:
		return vrtCertSPECDSA
	case 2:
		return vrtCertSPEd25519
	}
	return vrtCertSPRSA
}

func vrtIdPKeyPair(name string) ([]byte, *rsa.PrivateKey) {
	key := vrtRSAKey(vrtKeyIdPRSA)
	if !vrtBool(name + ".match") {
		key = vrtRSAKey(vrtKeyIdPOtherRSA)
	}
	if !vrtBool(name + ".cert.valid") {
		return []byte("not a certificate: " + vrtStr(name+".cert")), key
	}
	return vrtMustB64(vrtCertIdPRSA), key
}

// vrtIdPOtherKeyPair is a second, different certificate / key pair of the IdP.
func vrtIdPOtherKeyPair(name string) ([]byte, *rsa.PrivateKey) {
	return vrtMustB64(vrtCertIdPOtherRSA), vrtRSAKey(vrtKeyIdPOtherRSA)
}

func vrtIdPSigned() int { return 0 }

func vrtRedirectSigValid(octets, alg, sig, certDER string) bool {
	c, err := x509.ParseCertificate([]byte(certDER))
	if err != nil {
		return false
	}
	pub, ok := c.PublicKey.(*rsa.PublicKey)
	if !ok {
		return false
	}
	switch alg {
	case "http://www.w3.org/2000/09/xmldsig#rsa-sha1":
		h := sha1.Sum([]byte(octets))
		return rsa.VerifyPKCS1v15(pub, crypto.SHA1, h[:], []byte(sig)) == nil
	case "http://www.w3.org/2001/04/xmldsig-more#rsa-sha256":
		h := sha256.Sum256([]byte(octets))
		return rsa.VerifyPKCS1v15(pub, crypto.SHA256, h[:], []byte(sig)) == nil
	case "http://www.w3.org/2001/04/xmldsig-more#rsa-sha512":
		h := sha512.Sum512([]byte(octets))
		return rsa.VerifyPKCS1v15(pub, crypto.SHA512, h[:], []byte(sig)) == nil
	}
	return false
}

// vrtEnvelopedValid verifies, with goxmldsig (an implementation independent of
// the xmlsig signer the module uses), the enveloped signature of value as
// encoding/xml puts it on the wire, against the given certificate.
func vrtEnvelopedValid(value interface{}, sig interface{}, certDER string) bool {
	c, err := x509.ParseCertificate([]byte(certDER))
	if err != nil {
		return false
	}
	b, err := xml.Marshal(value)
	if err != nil {
		return false
	}
	doc := etree.NewDocument()
	if err := doc.ReadFromBytes(b); err != nil || doc.Root() == nil {
		return false
	}
	ctx := dsig.NewDefaultValidationContext(&dsig.MemoryX509CertificateStore{Roots: []*x509.Certificate{c}})
	ctx.IdAttribute = "ID"
	_, err = ctx.Validate(doc.Root())
	return err == nil
}

// vrtC14NSensitive: some character data of the value as encoding/xml writes it
// contains one of & < > CR, or some attribute value one of & < " TAB LF CR -
// the characters exclusive C14N writes as character references (the enveloped
// Signature element itself is not looked at).
func vrtC14NSensitive(value interface{}) bool {
	b, err := xml.Marshal(value)
	if err != nil {
		return false
	}
	d := xml.NewDecoder(bytes.NewReader(b))
	inSig := 0
	for {
		tok, err := d.RawToken()
		if err != nil {
			return false
		}
		switch t := tok.(type) {
		case xml.StartElement:
			if inSig > 0 || t.Name.Local == "Signature" {
				inSig++
				continue
			}
			for _, a := range t.Attr {
				if strings.ContainsAny(a.Value, "&<\"\t\n\r") {
					return true
				}
			}
		case xml.EndElement:
			if inSig > 0 {
				inSig--
			}
		case xml.CharData:
			if inSig == 0 && strings.ContainsAny(string(t), "&<>\r") {
				return true
			}
		}
	}
}

func vrtSPSignRedirect(pub interface{}, octets, alg string) string {
	if _, ok := pub.(*rsa.PublicKey); !ok {
		panic(vrtStop{"native signer has an RSA key only"})
	}
	key := vrtRSAKey(vrtKeySPRSA)
	var sig []byte
	var err error
	switch alg {
	case "http://www.w3.org/2000/09/xmldsig#rsa-sha1":
		h := sha1.Sum([]byte(octets))
		sig, err = rsa.SignPKCS1v15(nil, key, crypto.SHA1, h[:])
	case "http://www.w3.org/2001/04/xmldsig-more#rsa-sha256":
		h := sha256.Sum256([]byte(octets))
		sig, err = rsa.SignPKCS1v15(nil, key, crypto.SHA256, h[:])
	default:
		panic(vrtStop{"native signer supports rsa-sha1 and rsa-sha256"})
	}
	if err != nil {
		panic(err)
	}
	return string(sig)
}

func vrtSPSignEnveloped(pub interface{}, doc string) string {
	panic(vrtStop{"native enveloped signing by the SP is not built yet"})
}

func vrtKeyKind(pub interface{}) int {
	switch pub.(type) {
	case nil:
		return -1
	case *rsa.PublicKey:
		return 0
	}
	if strings.Contains(fmt.Sprintf("%T", pub), "ecdsa") {
		return 1
	}
	return 2
}

// vrtC18Reply: every reply is exactly one document made by a library encoder
// (encoding/xml, encoding/json, html/template, pem, http.Error, http.Redirect)
// - never text assembled by the module - and a protocol message in it decodes
// with the library's own decoder.
func vrtC18Reply(rp vrtReply, carriesMessage, decoded bool) {
	vrtAssert("C18.reply-is-one-encoder-made-document", rp.Kind != "other" && rp.Kind != "empty" && rp.Docs+rp.Forms <= 1)
	if carriesMessage {
		vrtAssert("C18.emitted-message-decodes-with-the-librarys-decoder", decoded)
	}
}
