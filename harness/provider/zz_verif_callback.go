package provider

import (
	"github.com/zitadel/saml/pkg/provider/xml/samlp"
)

// The login-callback route (C01, C02, C03, C04, C09, C10, C15, C17).
//
// Symbolic: the request (id in query and/or body, any method, any further
// parameter), the lookup result (absent | record with every field symbolic),
// the audience, the user record, the signing key material in every shape, the
// configured signature algorithm, every storage fault.

func init() { vrtHarnesses["HarnessCallback"] = HarnessCallback }

// vrtDelivery is a SAML Response as it left the IdP.
type vrtDelivery struct {
	decoded  bool   // a SAML message was found and decoded
	via      string // form | redirect | body
	target   string // form action / redirect URL without query / "" for the body
	relay    string // RelayState as delivered (unescaped)
	hasRelay bool
	query    string // redirect: the raw query string
	rawResp  string // redirect: raw (escaped) SAMLResponse value
	rawRelay string
	resp     *samlp.ResponseType
	badQuery bool // redirect query is not built from the SAML parameters alone
}

// vrtDecodeResponse recovers the message from a reply. expectTarget is where
// the property says it has to go (used to split a redirect URL).
func vrtDecodeResponse(rp vrtReply, expectTarget string) vrtDelivery {
	d := vrtDelivery{resp: &samlp.ResponseType{}}
	switch rp.Kind {
	case "form":
		d.via, d.target, d.relay, d.hasRelay = "form", rp.Action, rp.RelayState, true
		if x, ok := vrtUnB64(rp.SAMLResponse); ok {
			d.decoded = vrtXMLTo(x, d.resp)
		}
	case "redirect":
		d.via = "redirect"
		q, ok := vrtCutPrefix(rp.Location, expectTarget+"?")
		if !ok {
			d.target = rp.Location
			return d
		}
		d.target, d.query = expectTarget, q
		raw, has, n := vrtQueryRaw(q, "SAMLResponse")
		if !has || n != 1 {
			d.badQuery = true
			return d
		}
		d.rawResp = raw
		rr, hasR, _ := vrtQueryRaw(q, "RelayState")
		if hasR {
			d.rawRelay = rr
			d.relay, _ = vrtUnescape(rr)
			d.hasRelay = true
		}
		if v, ok := vrtUnescape(raw); ok {
			if x, ok := vrtUnB64(v); ok {
				if y, ok := vrtInflate(x); ok {
					d.decoded = vrtXMLTo(y, d.resp)
				}
			}
		}
	case "xml":
		d.via = "body"
		d.decoded = vrtXMLTo(rp.Body, d.resp)
	}
	return d
}

func vrtNoUserData(r *samlp.ResponseType) bool {
	return vrtAnd(r.Assertion.Subject == nil, len(r.Assertion.AttributeStatement) == 0, len(r.Assertion.AuthnStatement) == 0,
		r.Assertion.Signature == nil, r.Signature == nil)
}

func HarnessCallback() {
	st := &vrtStore{keyShapes: true}
	if vrtProp("C03") || vrtProp("C17") {
		// bound profile: these properties talk about regular replies only
		st.keyShapes, st.noFaults = false, true
	}
	st.respCert, st.respKey = vrtIdPKeyPair("idpkey")
	if vrtProp("C03") {
		st.user = vrtNewUser("user", vrtThorough(), vrtBound("custom attributes of the user", 1, 2), vrtBound("values per custom attribute", 2, 3))
	} else {
		st.user = vrtNewUser("user", false, vrtBound("custom attributes of the user (profile)", 1, 1), vrtBound("values per custom attribute (profile)", 1, 2))
	}
	st.entityID = vrtStr("audience")
	exists := vrtBool("authreq.exists")
	var ar *vrtAuthReq
	if exists {
		ar = &vrtAuthReq{
			id: vrtStr("authreq.id"), appID: vrtStr("authreq.appID"), relayState: vrtStr("authreq.relayState"),
			acsURL: vrtStr("authreq.acsURL"), authRequestID: vrtStr("authreq.requestID"), userID: vrtStr("authreq.userID"),
			done: vrtBool("authreq.done"),
		}
		// registered consumer URLs are absolute (embedder contract, DESIGN §3.6); C17 speaks
		// about javascript:/data: style consumer URLs too, so there the stored URL of a
		// POST-binding request is any string (see below)
		switch vrtChoice("authreq.bindingKind", 3) {
		case 0:
			ar.binding = PostBinding
		case 1:
			ar.binding = RedirectBinding
		default:
			ar.binding = vrtStr("authreq.binding")
			vrtAssume(ar.binding != PostBinding)
			vrtAssume(ar.binding != RedirectBinding)
		}
		if !(vrtProp("C17") && ar.binding == PostBinding) {
			vrtAssume(vrtOr(ar.acsURL == "", vrtHasPrefix(ar.acsURL, "https://")))
		}
		st.authReq = ar
	}
	vrtNominalSigAlg = false
	// history: nothing | another session's completed callback | a (signed) metadata request
	hist := 0
	if vrtProp("C01") || vrtProp("C02") || vrtProp("C03") || vrtProp("C04") || vrtProp("C15") {
		hist = vrtChoice("hist.kind", 3)
	}
	if hist != 0 {
		// the earlier client is a nominal one: regular key material and algorithm
		vrtAssume(vrtBool("idpkey.cert.valid"))
		vrtAssume(vrtBool("idpkey.match"))
		vrtNominalSigAlg = true
	}
	if hist == 2 {
		// metadata is signed with a key pair of its own
		vrtMetaSign = true
		st.metaCert, st.metaKey = vrtIdPOtherKeyPair("metakey")
		vrtAssume(vrtBool("metakey.cert.valid"))
		vrtAssume(vrtBool("metakey.match"))
		vrtAssume(string(st.metaCert) != string(st.respCert))
	}
	if hist == 1 && vrtBool("issuer.fromhost") {
		// one provider, two issuers: the earlier session was served under another host
		vrtHostIssuer = true
	}
	p := vrtNewProvider(st)
	vrtEarlierRequest(p, st, hist)

	rb := vrtNewRequest("req", vrtStr("req.method"), "/login")
	vrtReqParam(rb, "id", vrtBool("req.id.q?"), vrtStr("req.id.q"), vrtBool("req.id.b?"), vrtStr("req.id.b"))
	rp, panicked := vrtServe(p, rb)

	if panicked {
		vrtOutcome("panic")
		if vrtProp("C09") || vrtProp("C10") {
			vrtPanicked(vrtPropID() + ".no-panic")
		}
		return
	}
	if vrtProp("C15") {
		vrtAssert("C15.no-write-to-provider-lifetime-state", vrtSharedWrites() == 0)
		// under every schedule and history the reply consists of documents this request produced
		vrtAssert("C15.reply-made-of-this-requests-own-documents", rp.Kind != "other" && rp.Docs+rp.Forms <= 1)
	}

	acs := ""
	if ar != nil {
		acs = ar.acsURL
	}
	d := vrtDecodeResponse(rp, acs)
	success := d.decoded && d.resp.Status.StatusCode.Value == StatusCodeSuccess
	known := ar != nil && (ar.binding == PostBinding || ar.binding == RedirectBinding)
	vrtOutcome(rp.Kind)
	if d.decoded {
		if success {
			vrtOutcome("success")
			vrtCover("callback.success")
		} else {
			vrtOutcome("failure")
			vrtCover("callback.failure-message")
		}
	}
	if rp.Kind == "error" {
		vrtCover("callback.http-error")
	}
	if rp.Kind == "form" {
		vrtCover("callback.form")
	}
	if rp.Kind == "redirect" {
		vrtCover("callback.redirect")
	}
	if st.faulted {
		vrtCover("callback.fault")
	}

	if vrtProp("C01") {
		vrtAssert("C01.success-only-for-existing-request", !success || st.authReq != nil)
		if success && st.authReq != nil {
			vrtAssert("C01.success-only-when-done", ar.done)
			vrtAssert("C01.done-was-consulted", ar.doneCalls > 0)
			vrtAssert("C01.success-only-without-fault", !st.faulted)
		}
		if d.decoded && !success {
			vrtAssert("C01.failure-carries-no-user-data", vrtNoUserData(d.resp))
			if d.via == "redirect" {
				_, hasSig, _ := vrtQueryRaw(d.query, "Signature")
				vrtAssert("C01.failure-carries-no-signature", !hasSig)
			}
		}
		if st.count("SetUserinfoWithUserID") > 0 {
			vrtAssert("C01.userinfo-only-after-done", ar != nil && ar.done)
		}
		if rp.Kind == "error" {
			vrtAssert("C01.http-error-carries-no-message", rp.Docs == 0 && rp.Forms == 0)
		}
		if !d.decoded && known {
			// whatever else was sent, it is not an undecodable or empty reply
			vrtAssert("C01.reply-is-error-or-message", rp.Kind == "error")
		}
	}

	// resolved: the storage handed the stored request to the handler
	resolved := ar != nil && st.okCall("AuthRequestByID")
	if vrtProp("C02") && !resolved {
		// nothing is known about the caller: the reply stays in the HTTP body
		vrtAssert("C02.unknown-request-is-answered-in-the-body", rp.Kind == "error" || rp.Kind == "xml")
		if d.decoded {
			vrtAssert("C02.unknown-request-has-no-destination", d.resp.Destination == "")
		}
	}
	if vrtProp("C02") && resolved {
		switch rp.Kind {
		case "form":
			vrtAssert("C02.form-goes-to-stored-acs", vrtSameURL(rp.Action, ar.acsURL))
			vrtAssert("C02.form-only-for-post-binding", ar.binding == PostBinding)
		case "redirect":
			vrtAssert("C02.redirect-goes-to-stored-acs", d.target == ar.acsURL && d.query != "")
			if d.target == ar.acsURL {
				vrtAssert("C02.redirect-query-has-saml-parameters-only", !d.badQuery && vrtInSet(vrtQueryKeys(d.query),
					"SAMLResponse", "SAMLResponse,RelayState", "SAMLResponse,SigAlg", "SAMLResponse,RelayState,SigAlg",
					"SAMLResponse,Signature,SigAlg", "SAMLResponse,RelayState,Signature,SigAlg",
					"SAMLResponse,SigAlg,Signature", "SAMLResponse,RelayState,SigAlg,Signature"))
			}
			vrtAssert("C02.redirect-only-for-redirect-binding", ar.binding == RedirectBinding)
		case "xml":
			// XML in the HTTP body is the documented reply when no consumer URL is known
			// or when the stored binding is one the IdP cannot use towards the consumer
			vrtAssert("C02.body-only-without-acs", ar.acsURL == "" || !known)
		}
		if d.decoded {
			vrtAssert("C02.destination-is-stored-acs", d.resp.Destination == ar.acsURL)
			if success && d.resp.Assertion.Subject != nil && len(d.resp.Assertion.Subject.SubjectConfirmation) == 1 &&
				d.resp.Assertion.Subject.SubjectConfirmation[0].SubjectConfirmationData != nil {
				vrtAssert("C02.recipient-is-stored-acs", d.resp.Assertion.Subject.SubjectConfirmation[0].SubjectConfirmationData.Recipient == ar.acsURL)
			}
		}
	}

	if vrtProp("C03") && success && ar != nil {
		vrtC03Assertions(p, st, ar, d)
	}

	if vrtProp("C04") && ar != nil {
		vrtC04Callback(st, ar, rp, d, success)
	}

	if vrtProp("C10") && st.faulted {
		vrtAssert("C10.fault-ends-in-error-reply", rp.Kind == "error" && rp.Code >= 500 || d.decoded && !success)
		vrtAssert("C10.no-success-after-fault", !success)
		if d.decoded {
			vrtAssert("C10.no-user-data-after-fault", vrtNoUserData(d.resp))
		}
	}

	if vrtProp("C17") && rp.Kind == "form" && ar != nil {
		vrtAssert("C17.fixed-html-template-three-plain-strings", rp.TemplateOK)
		vrtAssert("C17.action-is-consumer-url", vrtSameURL(rp.Action, ar.acsURL))
		vrtAssert("C17.relaystate-field-is-relaystate", rp.RelayState == ar.relayState)
		vrtAssert("C17.message-field-decodes", d.decoded)
	}
	if vrtProp("C17") {
		vrtAssert("C17.one-form-at-most", rp.Forms <= 1 && (rp.Forms == 0 || rp.Kind == "form"))
	}
	if vrtProp("C18") {
		vrtC18Reply(rp, rp.Kind == "form" || rp.Kind == "xml" || rp.Kind == "redirect" && resolved, d.decoded)
	}
}

// vrtC03Assertions: the Success message is bound to request, audience, user.
func vrtC03Assertions(p *Provider, st *vrtStore, ar *vrtAuthReq, d vrtDelivery) {
	r := d.resp
	a := &r.Assertion
	vrtAssert("C03.response-inresponseto", r.InResponseTo == ar.authRequestID)
	vrtAssert("C03.response-destination", r.Destination == ar.acsURL)
	vrtAssert("C03.response-issuer", r.Issuer != nil && r.Issuer.Text == vrtIssuer+"/metadata")
	vrtAssert("C03.assertion-issuer", a.Issuer.Text == vrtIssuer+"/metadata")
	if d.via != "body" {
		// a response written into the HTTP body (no consumer URL known) has no RelayState channel
		vrtAssert("C03.relaystate", d.relay == ar.relayState && (d.hasRelay || ar.relayState == ""))
	}
	if d.via == "redirect" && d.hasRelay {
		vrtAssert("C03.relaystate-escaped-once", d.rawRelay == vrtQueryEscape(ar.relayState))
	}
	okSubj := a.Subject != nil && a.Subject.NameID != nil && len(a.Subject.SubjectConfirmation) == 1 &&
		a.Subject.SubjectConfirmation[0].SubjectConfirmationData != nil
	vrtAssert("C03.subject-shape", okSubj)
	if okSubj {
		scd := a.Subject.SubjectConfirmation[0].SubjectConfirmationData
		vrtAssert("C03.nameid-is-username", a.Subject.NameID.Text == st.user.username)
		vrtAssert("C03.confirmation-inresponseto", scd.InResponseTo == ar.authRequestID)
		vrtAssert("C03.confirmation-recipient", scd.Recipient == ar.acsURL)
	}
	okCond := a.Conditions != nil && len(a.Conditions.AudienceRestriction) == 1 && len(a.Conditions.AudienceRestriction[0].Audience) == 1
	vrtAssert("C03.conditions-shape", okCond)
	if okCond {
		vrtAssert("C03.audience", a.Conditions.AudienceRestriction[0].Audience[0] == st.entityID)
	}
	// validity window
	layout := p.Timeformat()
	okI, tI := vrtTimeParse(layout, r.IssueInstant)
	vrtAssert("C03.issueinstant-is-a-clock-reading", okI && vrtIsClockReading(tI))
	vrtAssert("C03.assertion-issueinstant", a.IssueInstant == r.IssueInstant)
	if okCond && okSubj && okI {
		okU, tU := vrtTimeParse(layout, a.Conditions.NotOnOrAfter)
		vrtAssert("C03.notbefore-is-issueinstant", a.Conditions.NotBefore == r.IssueInstant)
		vrtAssert("C03.notonorafter-is-issueinstant-plus-lifetime", okU && tU == tI+int(p.Expiration()))
		vrtAssert("C03.confirmation-notonorafter", a.Subject.SubjectConfirmation[0].SubjectConfirmationData.NotOnOrAfter == a.Conditions.NotOnOrAfter)
		vrtAssert("C03.lifetime-positive", p.Expiration() > 0)
	}
	// identifiers
	vrtAssert("C03.ids-are-ncnames", vrtMatches(r.Id, "ncname_id") && vrtMatches(a.Id, "ncname_id"))
	vrtAssert("C03.ids-distinct", r.Id != a.Id)
	// attribute statement = the user's data, exactly
	vrtAssert("C03.one-attribute-statement", len(a.AttributeStatement) == 1)
	if len(a.AttributeStatement) == 1 {
		vrtC03Attributes(st.user, a.AttributeStatement[0].Attribute)
	}
}
