package provider

import (
	"fmt"
	"strconv"

	"github.com/zitadel/saml/pkg/provider/xml/md"
)

// C16 — consumer endpoint selection is a deterministic, documented function of
// the registered metadata.
//
// The list, its length (0..bound), every Binding / Location / index / isDefault
// and the requested binding are symbolic. The oracle is the statement,
// transcribed: first entry with the requested binding; else first entry whose
// isDefault is an xs:boolean true ("true" or "1"); else an entry with the
// minimal index; nothing iff the list is empty.

func init() { vrtHarnesses["HarnessC16"] = HarnessC16 }

// vrtACSList builds a schema-valid symbolic AssertionConsumerService list.
func vrtACSList(prefix string, n int) []md.IndexedEndpointType {
	acs := make([]md.IndexedEndpointType, n)
	for i := 0; i < n; i++ {
		e := md.IndexedEndpointType{
			Binding:   vrtStr(prefix+".binding", i),
			Location:  vrtStr(prefix+".location", i),
			Index:     strconv.Itoa(vrtIntRange(fmt.Sprintf("%s.index_%d", prefix, i), 0, 65535)),
			IsDefault: vrtStr(prefix+".isDefault", i),
		}
		// schema: Binding and Location are required anyURI values, index is an
		// xs:unsignedShort in canonical form (the decimal rendering of 0..65535), isDefault an optional xs:boolean
		vrtAssume(e.Binding != "")
		vrtAssume(e.Location != "")
		vrtAssume(vrtInSet(e.IsDefault, "", "true", "false", "1", "0"))
		acs[i] = e
	}
	return acs
}

func HarnessC16() {
	maxLen := vrtBound("C16 ACS list length", 3, 6)
	n := vrtChoice("n", maxLen+1)
	acs := vrtACSList("acs", n)
	idx := make([]int, n)
	for i := range acs {
		v, err := strconv.Atoi(acs[i].Index)
		vrtAssume(err == nil)
		vrtAssume(v <= 65535)
		idx[i] = v
	}
	req := vrtStr("requestedBinding")

	// the registered list as it stands in the metadata (document order); the function must
	// select from it whatever it was asked before
	registered := append([]md.IndexedEndpointType{}, acs...)
	if vrtBool("hist.call") {
		GetAcsUrlAndBindingForResponse(acs, vrtStr("hist.requestedBinding"))
	}
	url, binding := GetAcsUrlAndBindingForResponse(acs, req)

	vrtC16Oracle("C16", registered, idx, req, url, binding)
}

// vrtC16Oracle asserts that (url, binding) is the entry the statement names.
func vrtC16Oracle(id string, acs []md.IndexedEndpointType, idx []int, req, url, binding string) {
	n := len(acs)
	if n == 0 {
		vrtCover(id + ".empty-list")
		vrtOutcome("none")
		vrtAssert(id+".nothing-when-none-registered", vrtAnd(url == "", binding == ""))
		return
	}
	// rule 1: first entry with the requested binding
	for i := 0; i < n; i++ {
		if acs[i].Binding == req {
			vrtCover(id + ".by-requested-binding")
			vrtOutcome(fmt.Sprintf("binding:%d", i))
			vrtAssert(id+".first-entry-with-requested-binding", vrtAnd(url == acs[i].Location, binding == acs[i].Binding))
			return
		}
	}
	// rule 2: first entry flagged isDefault (xs:boolean true)
	for i := 0; i < n; i++ {
		if acs[i].IsDefault == "true" || acs[i].IsDefault == "1" {
			vrtCover(id + ".by-isDefault")
			vrtOutcome(fmt.Sprintf("default:%d", i))
			vrtAssert(id+".first-default-entry", vrtAnd(url == acs[i].Location, binding == acs[i].Binding))
			return
		}
	}
	// rule 3: an entry with the lowest index
	min := idx[0]
	for i := 1; i < n; i++ {
		if idx[i] < min {
			min = idx[i]
		}
	}
	ok := false
	for i := 0; i < n; i++ {
		ok = vrtOr(ok, vrtAnd(idx[i] == min, url == acs[i].Location, binding == acs[i].Binding))
	}
	vrtCover(id + ".by-lowest-index")
	vrtOutcome("index")
	vrtAssert(id+".entry-with-lowest-index", ok)
}
