package provider

import (
	"github.com/zitadel/saml/pkg/provider/serviceprovider"
	"github.com/zitadel/saml/pkg/provider/xml"
	"github.com/zitadel/saml/pkg/provider/xml/md"
	"github.com/zitadel/saml/pkg/provider/xml/samlp"
)

// The single-logout route (C02, C07, C09, C10, C13, C14, C15, C17).

func init() {
	vrtHarnesses["HarnessLogout"] = HarnessLogout
	vrtHarnesses["HarnessLogoutConformant"] = HarnessLogoutConformant
}

const vrtSLOPath = "/SLO"

type vrtLogoutDelivery struct {
	decoded bool
	via     string // form | body
	target  string
	relay   string
	resp    *samlp.LogoutResponseType
}

func vrtDecodeLogoutResponse(rp vrtReply) vrtLogoutDelivery {
	d := vrtLogoutDelivery{resp: &samlp.LogoutResponseType{}}
	switch rp.Kind {
	case "form":
		d.via, d.target, d.relay = "form", rp.Action, rp.RelayState
		if x, ok := vrtUnB64(rp.SAMLResponse); ok {
			d.decoded = vrtXMLTo(x, d.resp)
		}
	case "xml":
		d.via = "body"
		d.decoded = vrtXMLTo(rp.Body, d.resp)
	}
	return d
}

// vrtLogoutSP: the service provider registered for the issuer: absent, or
// registered with 0..maxSLO SingleLogoutService entries.
func vrtLogoutSP(maxSLO int, lazyDescriptor bool) (*serviceprovider.ServiceProvider, *md.EntityDescriptorType, bool) {
	if !vrtBool("sp.registered") {
		return nil, nil, false
	}
	doc := &md.EntityDescriptorType{EntityID: md.EntityIDType(vrtStr("sp.EntityID"))}
	if !lazyDescriptor || vrtBool("sp.SPSSODescriptor?") {
		doc.SPSSODescriptor = &md.SPSSODescriptorType{}
		n := vrtChoice("slo#", maxSLO+1)
		for i := 0; i < n; i++ {
			e := md.EndpointType{Binding: vrtStr("slo.binding", i), Location: vrtStr("slo.location", i)}
			vrtAssume(vrtHasPrefix(e.Location, "https://")) // registered URLs are absolute
			doc.SPSSODescriptor.SingleLogoutService = append(doc.SPSSODescriptor.SingleLogoutService, e)
		}
	}
	wire := vrtWireXML(doc)
	var sp *serviceprovider.ServiceProvider
	var err error
	if vrtTry(func() {
		sp, err = serviceprovider.NewServiceProvider(vrtStr("sp.appID"), &serviceprovider.Config{Metadata: []byte(wire)},
			func(id string) string { return "https://login.example.test/login?authRequestID=" + id })
	}) {
		return nil, doc, true
	}
	if err != nil {
		return nil, doc, false
	}
	return sp, doc, false
}

func HarnessLogout() {
	faults := vrtProp("C10")
	st := &vrtStore{noFaults: !faults}
	st.respCert, st.respKey = vrtIdPKeyPair("idpkey")
	sp, doc, regPanicked := vrtLogoutSP(vrtBound("SingleLogoutService entries", 2, 3), vrtProp("C09"))
	if regPanicked {
		vrtOutcome("registration-panic")
		if vrtProp("C09") {
			vrtPanicked("C09.no-panic-in-registration")
		}
		return
	}
	st.sp = sp
	vrtNominalSigAlg = true
	// history: nothing | the logout of another service provider (which has a SingleLogoutService)
	hist := 0
	if (vrtProp("C02") || vrtProp("C13") || vrtProp("C15")) && !vrtBool("hist.none") {
		hist = 3
	}
	p := vrtNewProviderWith(st, false)
	vrtEarlierRequest(p, st, hist)

	method := vrtStr("req.method")
	rb := vrtNewRequest("req", method, vrtSLOPath)
	samlReq := vrtParam{qHas: vrtBool("SAMLRequest.q?"), bHas: vrtBool("SAMLRequest.b?")}
	enc, relay := vrtSymParam("SAMLEncoding"), vrtSymParam("RelayState")
	lr := &samlp.LogoutRequestType{}
	vrtLazy(lr, "logout")
	lr.IssueInstant = vrtTimestamp("logout.issueInstant", DefaultTimeFormat)
	lr.NotOnOrAfter = vrtTimestamp("logout.notOnOrAfter", DefaultTimeFormat)
	wire := vrtWireXML(lr)
	garbage := vrtStr("SAMLRequest.garbage")
	vrtAssume(vrtUndecodable(garbage))
	shape := vrtChoice("SAMLRequest.shape", 3)
	encoded := garbage
	switch shape {
	case 1:
		encoded = vrtB64(wire)
	case 2:
		encoded = vrtB64(vrtDeflate(wire))
	}
	samlReq.qVal, samlReq.bVal = encoded, encoded
	vrtReqParam(rb, "SAMLRequest", samlReq.qHas, samlReq.qVal, samlReq.bHas, samlReq.bVal)
	vrtReqParam(rb, "SAMLEncoding", enc.qHas, enc.qVal, enc.bHas, enc.bVal)
	vrtReqParam(rb, "RelayState", relay.qHas, relay.qVal, relay.bHas, relay.bVal)
	rp, panicked := vrtServe(p, rb)

	if panicked {
		vrtOutcome("panic")
		if vrtProp("C09") || vrtProp("C10") {
			vrtPanicked(vrtPropID() + ".no-panic")
		}
		return
	}
	if vrtProp("C15") {
		vrtAssert("C15.no-write-to-provider-lifetime-state", vrtSharedWrites() == 0)
		// under every schedule and history the reply consists of documents this request produced
		vrtAssert("C15.reply-made-of-this-requests-own-documents", rp.Kind != "other" && rp.Docs+rp.Forms <= 1)
	}

	// what the handler saw
	used := samlReq.form()
	usedEnc := enc.form()
	usedRelay := relay.form()
	if usedEnc == "" && samlReq.qHas {
		// HTTP-Redirect binding: DEFLATE is the default encoding
		usedEnc = xml.EncodingDeflate
	}
	decodes := !vrtBool("req.parsefail") && used != "" && (shape == 1 && usedEnc == "" || shape == 2 && usedEnc == xml.EncodingDeflate)
	d := vrtDecodeLogoutResponse(rp)
	success := d.decoded && d.resp.Status.StatusCode.Value == StatusCodeSuccess
	vrtOutcome(rp.Kind)
	if success {
		vrtOutcome("success")
		vrtCover("logout.success")
	} else if d.decoded {
		vrtOutcome("failure")
		vrtCover("logout.failure")
	}
	var slo []md.EndpointType
	if sp != nil && doc.SPSSODescriptor != nil {
		slo = doc.SPSSODescriptor.SingleLogoutService
	}

	if vrtProp("C13") {
		vrtAssert("C13.reply-is-one-logout-response", d.decoded || rp.Kind == "error")
		if d.decoded {
			vrtAssert("C13.issuer-is-the-idp", d.resp.Issuer != nil && d.resp.Issuer.Text == vrtIssuer+"/metadata")
			if decodes {
				vrtAssert("C13.inresponseto-echoes-the-request", d.resp.InResponseTo == lr.Id)
			}
			if d.via == "form" {
				vrtAssert("C13.relaystate-unchanged", d.relay == usedRelay)
				vrtAssert("C13.posted-to-first-registered-slo", len(slo) > 0 && vrtSameURL(d.target, slo[0].Location))
			}
			if success {
				vrtAssert("C13.success-delivered-to-registered-slo-or-body", d.via == "form" || len(slo) == 0)
			}
		}
		if success {
			vrtAssert("C13.success-only-if-request-decodes", decodes)
			vrtAssert("C13.success-only-for-registered-issuer", sp != nil && lr.Issuer != nil)
			okI, tI := vrtTimeParse(DefaultTimeFormat, lr.IssueInstant)
			okN, tN := vrtTimeParse(DefaultTimeFormat, lr.NotOnOrAfter)
			vrtAssert("C13.success-only-if-timestamps-parse", (lr.IssueInstant == "" || okI) && (lr.NotOnOrAfter == "" || okN))
			vrtAssert("C13.success-only-inside-the-window", vrtSomeClockSatisfies(tI, lr.IssueInstant != "", tN, lr.NotOnOrAfter != ""))
		}
	}

	if vrtProp("C02") {
		if rp.Kind == "form" {
			vrtAssert("C02.logout-form-goes-to-first-registered-slo", len(slo) > 0 && vrtSameURL(rp.Action, slo[0].Location))
		}
		vrtAssert("C02.logout-never-redirects", rp.Kind != "redirect")
		if d.decoded && d.resp.Destination != "" {
			vrtAssert("C02.logout-destination-is-registered-slo", len(slo) > 0 && d.resp.Destination == slo[0].Location)
		}
	}

	if vrtProp("C10") && st.faulted {
		vrtAssert("C10.fault-ends-in-error-reply", rp.Kind == "error" && rp.Code >= 500 || d.decoded && !success)
	}

	if vrtProp("C17") {
		if rp.Kind == "form" {
			vrtAssert("C17.fixed-html-template-three-plain-strings", rp.TemplateOK)
			vrtAssert("C17.relaystate-field-is-relaystate", rp.RelayState == usedRelay)
			vrtAssert("C17.message-field-decodes", d.decoded)
			vrtAssert("C17.action-is-logout-url", len(slo) > 0 && vrtSameURL(rp.Action, slo[0].Location))
		}
		vrtAssert("C17.one-form-at-most", rp.Forms <= 1 && (rp.Forms == 0 || rp.Kind == "form"))
	}

	if vrtProp("C08") || vrtProp("C18") {
		vrtAssert(vrtPropID()+".single-message", rp.Docs+rp.Forms <= 1)
	}
	if vrtProp("C18") {
		vrtC18Reply(rp, rp.Kind == "form" || rp.Kind == "xml", d.decoded)
	}
}

// HarnessLogoutConformant (C07): a LogoutRequest as a conformant, registered
// service provider sends it must be answered with Success.
func HarnessLogoutConformant() {
	st := &vrtStore{noFaults: true}
	st.respCert, st.respKey = vrtIdPKeyPair("idpkey")
	doc := &md.EntityDescriptorType{EntityID: md.EntityIDType(vrtStr("sp.EntityID"))}
	vrtAssume(doc.EntityID != "")
	doc.SPSSODescriptor = &md.SPSSODescriptorType{}
	n := vrtChoice("slo#", 3)
	for i := 0; i < n; i++ {
		e := md.EndpointType{Binding: vrtStr("slo.binding", i), Location: vrtStr("slo.location", i)}
		vrtAssume(vrtHasPrefix(e.Location, "https://"))
		doc.SPSSODescriptor.SingleLogoutService = append(doc.SPSSODescriptor.SingleLogoutService, e)
	}
	sp, err := serviceprovider.NewServiceProvider("app", &serviceprovider.Config{Metadata: []byte(vrtWireXML(doc))}, func(id string) string { return "https://login.example.test/" + id })
	if err != nil {
		vrtFail("harness.registration-failed")
		return
	}
	st.sp = sp
	vrtNominalSigAlg = true
	p := vrtNewProviderWith(st, false)

	// schema-valid request, every optional part on or off
	lr := &samlp.LogoutRequestType{Id: vrtStr("logout.Id"), Version: "2.0"}
	vrtAssume(lr.Id != "")
	lr.Issuer = vrtIssuerOf(string(doc.EntityID))
	lr.NameID = vrtIssuerOf(vrtStr("logout.NameID"))
	lr.IssueInstant = vrtTimestamp("logout.issueInstant", DefaultTimeFormat)
	lr.NotOnOrAfter = vrtTimestamp("logout.notOnOrAfter", DefaultTimeFormat)
	okI, tI := vrtTimeParse(DefaultTimeFormat, lr.IssueInstant)
	okN, tN := vrtTimeParse(DefaultTimeFormat, lr.NotOnOrAfter)
	vrtAssume(okI) // IssueInstant is required
	vrtAssume(lr.NotOnOrAfter == "" || okN)
	if vrtBool("logout.hasDestination") {
		lr.Destination = vrtIssuer + vrtSLOPath // the advertised location
	}
	if vrtBool("logout.hasSessionIndex") {
		lr.SessionIndex = []string{vrtStr("logout.SessionIndex")}
	}
	wire := vrtWireXML(lr)
	rs := vrtStr("RelayState")
	var rb *vrtReq
	// the two bindings the IdP's metadata advertises for single logout
	if vrtChoice("binding", 2) == 0 {
		vrtCover("C07.logout-redirect-binding")
		rb = vrtNewRequest("req", "GET", vrtSLOPath)
		vrtReqNoExtras(rb)
		vrtReqParam(rb, "SAMLRequest", true, vrtB64(vrtDeflate(wire)), false, "")
		vrtReqParam(rb, "RelayState", rs != "", rs, false, "")
	} else {
		vrtCover("C07.logout-post-binding")
		rb = vrtNewRequest("req", "POST", vrtSLOPath)
		vrtReqNoExtras(rb)
		vrtReqParam(rb, "SAMLRequest", false, "", true, vrtB64(wire))
		vrtReqParam(rb, "RelayState", false, "", rs != "", rs)
	}
	vrtAssume(!vrtBool("req.parsefail")) // a conformant client sends a well-formed query / form body
	rp, panicked := vrtServe(p, rb)
	if panicked {
		vrtOutcome("panic")
		vrtPanicked("C07.conformant-logout-request-is-answered")
		return
	}
	d := vrtDecodeLogoutResponse(rp)
	success := d.decoded && d.resp.Status.StatusCode.Value == StatusCodeSuccess
	vrtOutcome(rp.Kind)
	if success {
		vrtOutcome("success")
	}
	// inside the validity window at every clock reading of this request
	inWindow := vrtAllClocksSatisfy(tI, true, tN, lr.NotOnOrAfter != "")
	if inWindow {
		vrtAssert("C07.conformant-logout-request-succeeds", success)
	}
}
