package provider

// Harness runtime ("vrt"). Every function here has a native body, used when a
// solver model is replayed against the real build; the symbolic executor
// intercepts the same functions by name and gives them their symbolic meaning.
// This file lives in /verif and reaches the compiler only through an overlay.

import (
	"crypto/sha256"
	"encoding/base64"
	"fmt"
	"hash"
	"os"
	"reflect"
	"regexp"
	"runtime"
	"sort"
	"strings"
	"sync"
	"sync/atomic"
	"time"
	"unsafe"
)

var _ hash.Hash

type vrtVal struct {
	S *string `json:"s,omitempty"` // base64 of the bytes
	I *int64  `json:"i,omitempty"`
	B *bool   `json:"b,omitempty"`
}

type vrtRun struct {
	model     map[string]vrtVal
	tier      string
	prop      string
	start     time.Time
	failed    []string
	regions   []string
	outcomes  []string
	covers    []string
	panicSite string
	invalid   string
}

var vrtCur *vrtRun

// vrtHarnesses maps harness names to functions (filled by init functions).
var vrtHarnesses = map[string]func(){}

type vrtStop struct{ why string }

func vrtKey(name string, idx []int) string {
	for _, i := range idx {
		name += fmt.Sprintf("_%d", i)
	}
	return name
}

func vrtStr(name string, idx ...int) string {
	if v, ok := vrtCur.model[vrtKey(name, idx)]; ok && v.S != nil {
		b, err := base64.StdEncoding.DecodeString(*v.S)
		if err == nil {
			// amplified attempts: non-empty payload data (the user's record, the codec harness's
			// data) carries 32 KiB of incompressible (mode 1) or 64 KiB of highly compressible
			// (mode 2) padding
			if len(b) > 0 && (strings.HasPrefix(name, "user.") || name == "data") {
				switch vrtInt("vrt.amplify") {
				case 1:
					return string(b) + vrtNoise(32<<10)
				case 2:
					return string(b) + strings.Repeat("A", 64<<10)
				}
			}
			return string(b)
		}
	}
	return ""
}

// vrtNoise: n pseudo-random characters over [A-Za-z0-9] (deterministic).
func vrtNoise(n int) string {
	const alphabet = "ABCDEFGHIJKLMNOPQRSTUVWXYZabcdefghijklmnopqrstuvwxyz0123456789"
	var sb strings.Builder
	h := sha256.Sum256([]byte("vrt noise"))
	for sb.Len() < n {
		for _, c := range h {
			sb.WriteByte(alphabet[int(c)%len(alphabet)])
		}
		h = sha256.Sum256(h[:])
	}
	return sb.String()[:n]
}

func vrtBytes(name string, idx ...int) []byte { return []byte(vrtStr(name, idx...)) }

func vrtBool(name string, idx ...int) bool {
	if v, ok := vrtCur.model[vrtKey(name, idx)]; ok && v.B != nil {
		return *v.B
	}
	return false
}

func vrtInt(name string, idx ...int) int {
	if v, ok := vrtCur.model[vrtKey(name, idx)]; ok && v.I != nil {
		return int(*v.I)
	}
	return 0
}

func vrtIntRange(name string, lo, hi int) int {
	v := lo
	if m, ok := vrtCur.model[name]; ok && m.I != nil {
		v = int(*m.I)
	}
	if v < lo || v > hi {
		panic(vrtStop{"model value out of range for " + name})
	}
	return v
}

func vrtChoice(name string, n int) int {
	v := vrtInt(name)
	if v < 0 || v >= n {
		return n - 1
	}
	return v
}

func vrtConcretize(i, lo, hi int) int { return i }

func vrtBound(name string, quick, thorough int) int {
	if vrtCur.tier == "thorough" {
		return thorough
	}
	return quick
}

func vrtThorough() bool { return vrtCur.tier == "thorough" }

// vrtProp: is the running check the one for property id?
func vrtProp(id string) bool { return vrtCur.prop == id }
func vrtPropID() string      { return vrtCur.prop }

// vrtSymbolic is true under the symbolic executor, false natively.
func vrtSymbolic() bool { return false }

func vrtAssume(c bool) {
	if !c {
		panic(vrtStop{"assumption does not hold natively"})
	}
}

func vrtAssert(id string, c bool) {
	if !c {
		vrtCur.failed = append(vrtCur.failed, id)
	}
}

func vrtFail(id string)     { vrtCur.failed = append(vrtCur.failed, id) }
func vrtCover(id string)    { vrtCur.covers = append(vrtCur.covers, id) }
func vrtOutcome(s string)   { vrtCur.outcomes = append(vrtCur.outcomes, s) }
func vrtFinding(id string, c bool) {
	if c {
		vrtCur.regions = append(vrtCur.regions, id)
	}
}

func vrtAnd(cs ...bool) bool {
	for _, c := range cs {
		if !c {
			return false
		}
	}
	return true
}

func vrtOr(cs ...bool) bool {
	for _, c := range cs {
		if c {
			return true
		}
	}
	return false
}

func vrtImplies(a, b bool) bool { return !a || b }

func vrtIteStr(c bool, a, b string) string {
	if c {
		return a
	}
	return b
}

func vrtIteInt(c bool, a, b int) int {
	if c {
		return a
	}
	return b
}

func vrtInSet(s string, set ...string) bool {
	for _, e := range set {
		if s == e {
			return true
		}
	}
	return false
}

var vrtRegexClasses = map[string]*regexp.Regexp{
	"index":     regexp.MustCompile(`^(0|[1-9][0-9]{0,4})$`),
	"int":       regexp.MustCompile(`^[+-]?[0-9]+$`),
	"ncname_id": regexp.MustCompile(`^_[0-9a-f]{8}-[0-9a-f]{4}-[0-9a-f]{4}-[0-9a-f]{4}-[0-9a-f]{12}$`),
	"nobrace":   regexp.MustCompile(`^[^{}]*$`),
	"hostchars":  regexp.MustCompile(`^[a-z0-9.-]*$`),
	"hosttoken":  regexp.MustCompile(`^[a-z0-9.-]+$`),
	"pathchars":  regexp.MustCompile(`^(/?[a-z0-9]+(/[a-z0-9]+)*/?)?$`),
	"querychars": regexp.MustCompile(`^[a-z0-9=]*$`),
}

func vrtMatches(s, class string) bool { return vrtRegexClasses[class].MatchString(s) }

func vrtLenBound(s string, n int) bool       { return len(s) <= n }
func vrtHasPrefix(s, p string) bool          { return strings.HasPrefix(s, p) }
func vrtHasSuffix(s, p string) bool          { return strings.HasSuffix(s, p) }
func vrtContains(s, p string) bool           { return strings.Contains(s, p) }
func vrtTrimPrefix(s, p string) string       { return strings.TrimPrefix(s, p) }
func vrtTrimSuffix(s, p string) string       { return strings.TrimSuffix(s, p) }
func vrtAtoiOK(s string) bool                { return vrtRegexClasses["int"].MatchString(s) }

// vrtLazy fills *ptr with an arbitrary value of its type: natively from the
// model entries name.Field, name.Field? (pointer present), name.Field# (slice
// length), name.Field[i].
func vrtLazy(ptr interface{}, name string) {
	vrtFill(reflect.ValueOf(ptr).Elem(), name)
}

func vrtFill(v reflect.Value, name string) {
	if v.Type().PkgPath() == "encoding/xml" && v.Type().Name() == "Name" {
		return
	}
	switch v.Kind() {
	case reflect.String:
		v.SetString(vrtStr(name))
	case reflect.Bool:
		v.SetBool(vrtBool(name))
	case reflect.Int, reflect.Int64, reflect.Int32, reflect.Int16, reflect.Int8:
		v.SetInt(int64(vrtInt(name)))
	case reflect.Uint, reflect.Uint64, reflect.Uint32, reflect.Uint16, reflect.Uint8:
		v.SetUint(uint64(vrtInt(name)))
	case reflect.Struct:
		for i := 0; i < v.NumField(); i++ {
			f := v.Type().Field(i)
			tag := string(f.Tag)
			if strings.Contains(tag, ",innerxml") || strings.Contains(tag, `xml:"-"`) {
				continue
			}
			if !v.Field(i).CanSet() {
				continue
			}
			if f.Name == "X509Certificate" && v.Field(i).Kind() == reflect.String {
				v.Field(i).SetString(vrtCertText(name + "." + f.Name))
				continue
			}
			vrtFill(v.Field(i), name+"."+f.Name)
		}
	case reflect.Ptr:
		if vrtBool(name + "?") {
			v.Set(reflect.New(v.Type().Elem()))
			vrtFill(v.Elem(), name)
		}
	case reflect.Slice:
		if v.Type().Elem().Kind() == reflect.Uint8 {
			v.SetBytes([]byte(vrtStr(name)))
			return
		}
		n := vrtInt(name + "#")
		if n > 0 {
			v.Set(reflect.MakeSlice(v.Type(), n, n))
			for i := 0; i < n; i++ {
				vrtFill(v.Index(i), fmt.Sprintf("%s[%d]", name, i))
			}
		}
	case reflect.Array:
		for i := 0; i < v.Len(); i++ {
			vrtFill(v.Index(i), fmt.Sprintf("%s[%d]", name, i))
		}
	}
}

// vrtEpoch: everything allocated before this call is provider-lifetime state.
// Natively the state reachable from the provider (vrtEpochRoot) is digested
// here and again in vrtSharedWrites: a difference is a write to it.
func vrtEpoch() {
	vrtEpochDigest = ""
	if vrtEpochRoot != nil {
		vrtEpochDigest = vrtStateDigest(vrtEpochRoot)
	}
}

var vrtEpochRoot interface{}
var vrtEpochDigest string

func vrtSharedWrites() int {
	if vrtEpochRoot != nil && vrtStateDigest(vrtEpochRoot) != vrtEpochDigest {
		return 1
	}
	return 0
}

const vrtModulePath = "github.com/zitadel/saml"

// vrtStateDigest hashes the module-typed state reachable from root: structs of
// the module's own types field by field (exported or not), pointers, slices,
// maps, strings and numbers. Values of foreign named struct types (templates,
// routers, keys, mutexes) are library state and are skipped - except sync.Map
// and atomic.Value, whose content is application data. The storage (a harness
// object behind an interface) is skipped.
func vrtStateDigest(root interface{}) string {
	h := sha256.New()
	seen := map[uintptr]bool{}
	var walk func(v reflect.Value, depth int)
	walk = func(v reflect.Value, depth int) {
		if depth > 40 {
			return
		}
		switch v.Kind() {
		case reflect.Ptr:
			if v.IsNil() {
				h.Write([]byte("nil;"))
				return
			}
			if seen[v.Pointer()] {
				h.Write([]byte("seen;"))
				return
			}
			seen[v.Pointer()] = true
			h.Write([]byte("ptr:"))
			walk(v.Elem(), depth+1)
		case reflect.Interface:
			if v.IsNil() {
				h.Write([]byte("nil;"))
				return
			}
			e := v.Elem()
			t := e.Type()
			for t.Kind() == reflect.Ptr {
				t = t.Elem()
			}
			if strings.HasPrefix(t.Name(), "vrt") {
				return // harness objects (the storage stub)
			}
			h.Write([]byte("iface:" + e.Type().String() + ":"))
			walk(e, depth+1)
		case reflect.Struct:
			t := v.Type()
			if t.PkgPath() == "sync" && t.Name() == "Map" && v.CanAddr() {
				m := (*sync.Map)(unsafe.Pointer(v.UnsafeAddr()))
				var items []string
				m.Range(func(k, val interface{}) bool {
					items = append(items, fmt.Sprintf("%v=%s", k, vrtStateDigest(val)))
					return true
				})
				sort.Strings(items)
				h.Write([]byte("syncmap:" + strings.Join(items, ",") + ";"))
				return
			}
			if t.PkgPath() == "sync/atomic" && t.Name() == "Value" && v.CanAddr() {
				av := (*atomic.Value)(unsafe.Pointer(v.UnsafeAddr()))
				if val := av.Load(); val != nil {
					h.Write([]byte("atomic:" + vrtStateDigest(val) + ";"))
				}
				return
			}
			if t.PkgPath() != "" && !strings.HasPrefix(t.PkgPath(), vrtModulePath) {
				return
			}
			h.Write([]byte("struct " + t.String() + "{"))
			for i := 0; i < v.NumField(); i++ {
				h.Write([]byte(t.Field(i).Name + ":"))
				walk(v.Field(i), depth+1)
			}
			h.Write([]byte("}"))
		case reflect.Slice:
			if v.IsNil() {
				h.Write([]byte("nil;"))
				return
			}
			fallthrough
		case reflect.Array:
			h.Write([]byte(fmt.Sprintf("[%d:", v.Len())))
			for i := 0; i < v.Len(); i++ {
				walk(v.Index(i), depth+1)
			}
			h.Write([]byte("]"))
		case reflect.Map:
			if v.IsNil() {
				h.Write([]byte("nil;"))
				return
			}
			var items []string
			it := v.MapRange()
			for it.Next() {
				sub := sha256.New()
				old := h
				h = sub
				walk(it.Key(), depth+1)
				h.Write([]byte("=>"))
				walk(it.Value(), depth+1)
				h = old
				items = append(items, fmt.Sprintf("%x", sub.Sum(nil)))
			}
			sort.Strings(items)
			h.Write([]byte("map{" + strings.Join(items, ",") + "}"))
		case reflect.String:
			h.Write([]byte(fmt.Sprintf("%q;", v.String())))
		case reflect.Bool:
			h.Write([]byte(fmt.Sprintf("%v;", v.Bool())))
		case reflect.Int, reflect.Int8, reflect.Int16, reflect.Int32, reflect.Int64:
			h.Write([]byte(fmt.Sprintf("%d;", v.Int())))
		case reflect.Uint, reflect.Uint8, reflect.Uint16, reflect.Uint32, reflect.Uint64, reflect.Uintptr:
			h.Write([]byte(fmt.Sprintf("%d;", v.Uint())))
		case reflect.Float32, reflect.Float64:
			h.Write([]byte(fmt.Sprintf("%v;", v.Float())))
		}
	}
	walk(reflect.ValueOf(root), 0)
	return fmt.Sprintf("%x", h.Sum(nil))
}

// vrtTry runs f and reports whether it panicked; the panic site (function and
// source line text of the innermost frame inside the module) is remembered.
func vrtTry(f func()) (panicked bool) {
	defer func() {
		if r := recover(); r != nil {
			if s, ok := r.(vrtStop); ok {
				panic(s)
			}
			panicked = true
			vrtCur.panicSite = vrtPanicSite() + " [" + fmt.Sprint(r) + "]"
		}
	}()
	f()
	return false
}

func vrtPanicSite() string {
	pcs := make([]uintptr, 64)
	n := runtime.Callers(3, pcs)
	frames := runtime.CallersFrames(pcs[:n])
	for {
		fr, more := frames.Next()
		if strings.Contains(fr.Function, "github.com/zitadel/saml") && !strings.Contains(fr.File, "zz_verif") {
			line := ""
			if data, err := os.ReadFile(fr.File); err == nil {
				ls := strings.Split(string(data), "\n")
				if fr.Line-1 < len(ls) {
					line = strings.Join(strings.Fields(ls[fr.Line-1]), " ")
				}
			}
			return vrtSSAName(fr.Function) + ":" + line
		}
		if !more {
			break
		}
	}
	return "?"
}

// vrtSSAName converts a runtime function name to go/ssa's spelling.
func vrtSSAName(f string) string {
	// github.com/x/pkg.(*T).m.func1 -> (*github.com/x/pkg.T).m$1
	re := regexp.MustCompile(`\.func(\d+)`)
	f = re.ReplaceAllString(f, `$$$1`)
	if i := strings.Index(f, ".(*"); i >= 0 {
		j := strings.Index(f[i:], ")")
		if j > 0 {
			return "(*" + f[:i] + "." + f[i+3:i+j] + ")" + f[i+j+1:]
		}
	}
	return f
}

func vrtPanicked(id string) {
	vrtCur.failed = append(vrtCur.failed, id+"@"+vrtCur.panicSite)
}
