package provider

import (
	"github.com/zitadel/saml/pkg/provider/serviceprovider"
	"github.com/zitadel/saml/pkg/provider/signature"
	"github.com/zitadel/saml/pkg/provider/xml/md"
	"github.com/zitadel/saml/pkg/provider/xml/samlp"
	"github.com/zitadel/saml/pkg/provider/xml/xml_dsig"
)

// HarnessSSOConformant (C07): every AuthnRequest a conformant, registered
// service provider can send is accepted - persisted and answered with a 303 to
// the login page.
//
// Conformant here: schema-valid at struct level (every optional element and
// attribute of AuthnRequestType is arbitrary; Issuer is the registered entity
// ID; ID non-empty; Version 2.0; Destination absent or the advertised
// SingleSignOnService location; Conditions absent or with timestamps in the
// xs:dateTime form bracketing every clock reading of the request); sent with
// the Redirect binding (deflated, base64, in the query, no SAMLEncoding) or the
// POST binding (base64 in the form body); unsigned where neither side asks for
// signed requests, or - Redirect binding - signed by the registered RSA key
// with rsa-sha1 / rsa-sha256 over the query octets in Go's percent-encoding
// style (other legal encoding styles: HarnessSSOSignedEncodingStyles).
func init() {
	vrtHarnesses["HarnessSSOConformant"] = HarnessSSOConformant
}

// vrtConformantSP registers a service provider with 1..2 consumer endpoints the
// IdP can answer (POST or Redirect binding) and, with withKey, one RSA signing
// certificate.
func vrtConformantSP(withKey bool) (*serviceprovider.ServiceProvider, *md.EntityDescriptorType, string) {
	return vrtConformantSPn(withKey, vrtBound("ACS entries of the conformant service provider beyond the first", 1, 2))
}

func vrtConformantSPn(withKey bool, extraACS int) (*serviceprovider.ServiceProvider, *md.EntityDescriptorType, string) {
	doc := &md.EntityDescriptorType{EntityID: md.EntityIDType(vrtStr("sp.EntityID"))}
	vrtAssume(doc.EntityID != "")
	doc.SPSSODescriptor = &md.SPSSODescriptorType{}
	n := 1 + vrtChoice("acs#", extraACS+1)
	acs := vrtACSList("acs", n)
	for i := range acs {
		vrtAssume(vrtInSet(acs[i].Binding, PostBinding, RedirectBinding))
		vrtAssume(vrtHasPrefix(acs[i].Location, "https://"))
	}
	doc.SPSSODescriptor.AssertionConsumerService = acs
	certText := ""
	if withKey {
		certText = vrtCertText("sp.cert")
		vrtAssume(vrtBool("sp.cert.valid"))
		kd := md.KeyDescriptorType{Use: md.KeyTypes(vrtStr("sp.keyUse"))}
		vrtAssume(vrtInSet(string(kd.Use), "", "signing"))
		kd.KeyInfo.X509Data = []xml_dsig.X509DataType{{X509Certificate: certText}}
		doc.SPSSODescriptor.KeyDescriptor = []md.KeyDescriptorType{kd}
	}
	doc.SPSSODescriptor.AuthnRequestsSigned = vrtStr("sp.AuthnRequestsSigned")
	vrtAssume(vrtInSet(doc.SPSSODescriptor.AuthnRequestsSigned, "", "true", "false", "1", "0"))
	sp, err := serviceprovider.NewServiceProvider("app", &serviceprovider.Config{Metadata: []byte(vrtWireXML(doc))},
		func(id string) string { return "https://login.example.test/login?authRequestID=" + id })
	if err != nil {
		vrtFail("harness.registration-failed")
		panic(vrtStop{"registration of a schema-valid service provider failed"})
	}
	return sp, doc, certText
}

// vrtConformantAuthnRequest: an arbitrary schema-valid request of the given issuer.
func vrtConformantAuthnRequest(entityID string) (a *samlp.AuthnRequestType, inWindow func() bool) {
	a = &samlp.AuthnRequestType{}
	vrtLazy(a, "authn")
	a.Version = "2.0"
	vrtAssume(a.Id != "")
	a.Issuer = vrtIssuerOf(entityID)
	a.Signature = nil
	if vrtBool("authn.hasDestination") {
		a.Destination = vrtIssuer + vrtSSOPath // the advertised SingleSignOnService location
	} else {
		a.Destination = ""
	}
	// the requested response binding, when given, is one the IdP supports
	vrtAssume(vrtInSet(a.ProtocolBinding, "", PostBinding, RedirectBinding))
	inWindow = func() bool { return true }
	if a.Conditions != nil {
		a.Conditions.NotBefore = vrtTimestamp("authn.notBefore", DefaultTimeFormat)
		a.Conditions.NotOnOrAfter = vrtTimestamp("authn.notOnOrAfter", DefaultTimeFormat)
		okB, tB := vrtTimeParse(DefaultTimeFormat, a.Conditions.NotBefore)
		okA, tA := vrtTimeParse(DefaultTimeFormat, a.Conditions.NotOnOrAfter)
		vrtAssume(a.Conditions.NotBefore == "" || okB)
		vrtAssume(a.Conditions.NotOnOrAfter == "" || okA)
		// evaluated after the request was served: every clock reading of the request lies inside the window
		inWindow = func() bool {
			return vrtAllClocksSatisfy(tB, a.Conditions.NotBefore != "", tA, a.Conditions.NotOnOrAfter != "")
		}
	}
	return a, inWindow
}

func HarnessSSOConformant() {
	st := &vrtStore{noFaults: true}
	st.respCert, st.respKey = vrtIdPKeyPair("idpkey")
	vrtAssume(vrtBool("idpkey.cert.valid"))
	vrtAssume(vrtBool("idpkey.match"))
	signed := vrtBool("request.signed")
	sp, doc, certText := vrtConformantSP(signed)
	st.sp = sp
	st.created = &vrtAuthReq{id: vrtStr("created.id")}
	vrtNominalSigAlg = true
	p := vrtNewProviderWith(st, true)
	vrtAssume(vrtInSet(vrtConfWant, "", "true", "false", "1", "0"))
	if !signed {
		// nobody asks for signed requests
		vrtAssume(!vrtXSTrue(doc.SPSSODescriptor.AuthnRequestsSigned))
		vrtAssume(!vrtXSTrue(vrtConfWant))
	}

	a, inWindow := vrtConformantAuthnRequest(string(doc.EntityID))
	wire := vrtWireXML(a)
	rs := vrtStr("RelayState")
	var rb *vrtReq
	redirect := signed || vrtChoice("binding", 2) == 0
	if redirect {
		vrtCover("C07.sso-redirect-binding")
		rb = vrtNewRequest("req", "GET", vrtSSOPath)
		vrtReqNoExtras(rb)
		enc := vrtB64(vrtDeflate(wire))
		vrtReqParam(rb, "SAMLRequest", true, enc, false, "")
		vrtReqParam(rb, "RelayState", rs != "", rs, false, "")
		if signed {
			vrtCover("C07.sso-redirect-binding-signed")
			alg := vrtRSASHA256
			if vrtBool("request.sha1") {
				alg = vrtRSASHA1
			}
			certs, err := signature.ParseCertificates([]string{certText})
			if err != nil || len(certs) != 1 {
				vrtFail("harness.sp-certificate-does-not-parse")
				return
			}
			// the property's signing algorithms are RSA ones: the registered key is an RSA key
			vrtAssume(vrtKeyKind(certs[0].PublicKey) == 0)
			octets := "SAMLRequest=" + vrtQueryEscape(enc)
			if rs != "" {
				octets += "&RelayState=" + vrtQueryEscape(rs)
			}
			octets += "&SigAlg=" + vrtQueryEscape(alg)
			sig := vrtSPSignRedirect(certs[0].PublicKey, octets, alg)
			vrtReqParam(rb, "SigAlg", true, alg, false, "")
			vrtReqParam(rb, "Signature", true, vrtB64(sig), false, "")
		}
	} else {
		vrtCover("C07.sso-post-binding")
		rb = vrtNewRequest("req", "POST", vrtSSOPath)
		vrtReqNoExtras(rb)
		vrtReqParam(rb, "SAMLRequest", false, "", true, vrtB64(wire))
		vrtReqParam(rb, "RelayState", false, "", rs != "", rs)
	}
	vrtAssume(!vrtBool("req.parsefail")) // a conformant client sends a well-formed query / form body
	rp, panicked := vrtServe(p, rb)
	if panicked {
		vrtOutcome("panic")
		vrtPanicked("C07.conformant-authn-request-is-answered")
		return
	}
	persists := st.count("CreateAuthRequest")
	accepted := persists == 1 && rp.Kind == "redirect" && rp.Code == 303 && vrtSameURL(rp.Location, sp.LoginURL(st.created.id))
	vrtOutcome(rp.Kind)
	if accepted {
		vrtOutcome("accepted")
	}
	if inWindow() {
		vrtAssert("C07.conformant-authn-request-is-accepted", accepted)
	}
}

// HarnessSSOSigned (C05): the registered service provider has signed exactly
// one Redirect-binding request (message, RelayState, algorithm). The attacker
// delivers a Redirect-binding request whose four parameters are arbitrary
// strings (two cases: the signed message itself with arbitrary other
// parameters; a different message). Acceptance, whenever a signature is
// required or a signature value is present, implies that the values the
// handler acted on are exactly the signed ones. Parameter placement across
// query and body is the subject of HarnessSSOPlacementSig.
func init() { vrtHarnesses["HarnessSSOSigned"] = HarnessSSOSigned }

func HarnessSSOSigned() {
	st := &vrtStore{noFaults: true}
	st.respCert, st.respKey = vrtIdPKeyPair("idpkey")
	vrtAssume(vrtBool("idpkey.cert.valid"))
	vrtAssume(vrtBool("idpkey.match"))
	sp, doc, certText := vrtConformantSPn(true, 0)
	st.sp = sp
	st.created = &vrtAuthReq{id: vrtStr("created.id")}
	vrtNominalSigAlg = true
	// quick tier: the requirement comes from the service provider's metadata or from a delivered
	// signature value; thorough: also from the IdP's own configuration
	p := vrtNewProviderWith(st, vrtThorough())
	vrtAssume(vrtInSet(vrtConfWant, "", "true", "false", "1", "0"))

	// what the service provider signed
	a := &samlp.AuthnRequestType{Id: vrtStr("authn.Id"), Version: "2.0", IssueInstant: vrtStr("authn.IssueInstant")}
	vrtAssume(a.Id != "")
	a.Issuer = vrtIssuerOf(string(doc.EntityID))
	wire := vrtWireXML(a)
	enc := vrtB64(vrtDeflate(wire))
	rs := vrtStr("signed.RelayState")
	alg := vrtRSASHA256
	if vrtBool("request.sha1") {
		alg = vrtRSASHA1
	}
	certs, err := signature.ParseCertificates([]string{certText})
	if err != nil || len(certs) != 1 {
		vrtFail("harness.sp-certificate-does-not-parse")
		return
	}
	vrtAssume(vrtKeyKind(certs[0].PublicKey) == 0)
	octets := "SAMLRequest=" + vrtQueryEscape(enc)
	if rs != "" {
		octets += "&RelayState=" + vrtQueryEscape(rs)
	}
	octets += "&SigAlg=" + vrtQueryEscape(alg)
	rawSig := vrtSPSignRedirect(certs[0].PublicKey, octets, alg)
	sig := vrtB64(rawSig)

	// what the attacker delivers: a GET, or a POST whose form body carries a RelayState of its own
	// next to the (signed) query - net/http's FormValue prefers the body
	method, bodyRelay := "GET", false
	if vrtBool("delivered.post") {
		method, bodyRelay = "POST", vrtBool("delivered.RelayState.b?")
	}
	rb := vrtNewRequest("req", method, vrtSSOPath)
	vrtReqNoExtras(rb)
	vrtAssume(!vrtBool("req.parsefail"))
	// mode 0: the signed message with arbitrary other parameters; mode 1: another message with the
	// signed parameters (a signature replayed on a different request); mode 2 (thorough): everything arbitrary
	modes := 2
	if vrtThorough() {
		modes = 3
	}
	mode := vrtChoice("delivered.mode", modes)
	usedReq := enc
	otherMessage := mode != 0
	if otherMessage {
		usedReq = vrtStr("delivered.SAMLRequest")
		vrtAssume(usedReq != enc)
	}
	hasRelay, hasAlg, hasSig := rs != "", true, true
	usedRelay, usedAlg, usedSig := rs, alg, sig
	if mode != 1 {
		hasRelay, hasAlg, hasSig = vrtBool("delivered.RelayState?"), vrtBool("delivered.SigAlg?"), vrtBool("delivered.Signature?")
		usedRelay, usedAlg = vrtStr("delivered.RelayState"), vrtStr("delivered.SigAlg")
		if !vrtBool("delivered.Signature.isTheSigners") {
			// exhaustive case split: the delivered value decodes to the signer's bytes (then it is
			// delivered as the signer encoded it) or it does not
			usedSig = vrtStr("delivered.Signature")
			raw, ok := vrtUnB64(usedSig)
			vrtAssume(!ok || raw != rawSig)
		}
	}
	if !hasRelay {
		usedRelay = ""
	}
	if !hasAlg {
		usedAlg = ""
	}
	if !hasSig {
		usedSig = ""
	}
	vrtReqParam(rb, "SAMLRequest", true, usedReq, false, "")
	vrtReqParam(rb, "RelayState", hasRelay, usedRelay, bodyRelay, vrtStr("delivered.RelayState.b"))
	vrtReqParam(rb, "SigAlg", hasAlg, usedAlg, false, "")
	vrtReqParam(rb, "Signature", hasSig, usedSig, false, "")
	// profile: a signature is required or a signature value is delivered (requests for which
	// signatures play no role are the subject of the other SSO harnesses)
	required := vrtXSTrue(doc.SPSSODescriptor.AuthnRequestsSigned) || vrtXSTrue(vrtConfWant)
	vrtAssume(required || usedSig != "")
	rp, panicked := vrtServe(p, rb)
	if panicked {
		vrtOutcome("panic")
		return
	}
	persists := st.count("CreateAuthRequest")
	accepted := persists > 0 && st.calls[len(st.calls)-1].Name == "CreateAuthRequest" && st.calls[len(st.calls)-1].OK
	vrtOutcome(rp.Kind)
	if !accepted {
		vrtCover("sso.rejected")
		return
	}
	vrtOutcome("accepted")
	vrtCover("sso.accepted")
	if required || usedSig != "" {
		vrtCover("C05.signed-request-accepted")
		vrtAssert("C05.accepted-message-is-the-signed-message", !otherMessage)
		vrtAssert("C05.accepted-relaystate-is-the-signed-relaystate", usedRelay == rs)
		vrtAssert("C05.accepted-algorithm-is-the-signed-algorithm", usedAlg == alg)
		// base64 decoding is not injective (line breaks, padding bits): compare the decoded bytes
		rawUsed, okUsed := vrtUnB64(usedSig)
		vrtAssert("C05.accepted-signature-is-the-signers", okUsed && rawUsed == rawSig)
		vrtAssert("C05.persisted-relaystate-is-the-signed-relaystate", st.createdArgs[2] == rs)
		if !otherMessage {
			vrtAssert("C05.persisted-request-is-the-signed-request", st.createdReq != nil && st.createdReq.Id == a.Id)
		}
	}
}

// HarnessSSOSignedEncodingStyles (C07): a correctly signed Redirect-binding
// AuthnRequest is accepted whatever legal percent-encoding style the service
// provider used for the query string. The signature covers the octets as the
// sender encoded them (saml-bindings 3.4.4.1), so a verifier has to take them
// from the raw query string. Profile: a minimal request (ID, Version, Issuer),
// one consumer endpoint; styles: 0 Go's (upper-case hex, '+' for a blank),
// 1 lower-case hex digits, 2 "%20" for a blank.
func init() { vrtHarnesses["HarnessSSOSignedEncodingStyles"] = HarnessSSOSignedEncodingStyles }

func HarnessSSOSignedEncodingStyles() {
	st := &vrtStore{noFaults: true}
	st.respCert, st.respKey = vrtIdPKeyPair("idpkey")
	vrtAssume(vrtBool("idpkey.cert.valid"))
	vrtAssume(vrtBool("idpkey.match"))
	sp, doc, certText := vrtConformantSPn(true, 0)
	st.sp = sp
	st.created = &vrtAuthReq{id: vrtStr("created.id")}
	vrtNominalSigAlg = true
	p := vrtNewProviderWith(st, false)

	a := &samlp.AuthnRequestType{Id: vrtStr("authn.Id"), Version: "2.0", IssueInstant: vrtStr("authn.IssueInstant")}
	vrtAssume(a.Id != "")
	a.Issuer = vrtIssuerOf(string(doc.EntityID))
	enc := vrtB64(vrtDeflate(vrtWireXML(a)))
	rs := vrtStr("RelayState")
	alg := vrtRSASHA256
	if vrtBool("request.sha1") {
		alg = vrtRSASHA1
	}
	certs, err := signature.ParseCertificates([]string{certText})
	if err != nil || len(certs) != 1 {
		vrtFail("harness.sp-certificate-does-not-parse")
		return
	}
	vrtAssume(vrtKeyKind(certs[0].PublicKey) == 0)
	style := vrtChoice("request.escapeStyle", 3)
	if style != 0 {
		vrtCover("C07.sso-redirect-binding-signed-other-escape-style")
	}
	eReq, eRs, eAlg := vrtEscapeStyle(style, enc), vrtEscapeStyle(style, rs), vrtEscapeStyle(style, alg)
	octets := "SAMLRequest=" + eReq
	if rs != "" {
		octets += "&RelayState=" + eRs
	}
	octets += "&SigAlg=" + eAlg
	sig := vrtB64(vrtSPSignRedirect(certs[0].PublicKey, octets, alg))
	rb := vrtNewRequest("req", "GET", vrtSSOPath)
	vrtReqNoExtras(rb)
	vrtAssume(!vrtBool("req.parsefail"))
	vrtReqParamRaw(rb, "SAMLRequest", true, eReq, enc)
	vrtReqParamRaw(rb, "RelayState", rs != "", eRs, rs)
	vrtReqParamRaw(rb, "SigAlg", true, eAlg, alg)
	vrtReqParamRaw(rb, "Signature", true, vrtEscapeStyle(style, sig), sig)
	rp, panicked := vrtServe(p, rb)
	if panicked {
		vrtOutcome("panic")
		vrtPanicked("C07.conformant-authn-request-is-answered")
		return
	}
	persists := st.count("CreateAuthRequest")
	accepted := persists == 1 && rp.Kind == "redirect" && rp.Code == 303 && vrtSameURL(rp.Location, sp.LoginURL(st.created.id))
	vrtOutcome(rp.Kind)
	if accepted {
		vrtOutcome("accepted")
	}
	vrtFinding("C07.redirect-signature-other-escape-style", style != 0)
	vrtAssert("C07.signed-request-is-accepted-in-every-escape-style", accepted)
	if accepted {
		vrtAssert("C07.persisted-relaystate-is-the-decoded-relaystate", st.createdArgs[2] == rs)
	}
}
