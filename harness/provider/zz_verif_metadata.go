package provider

import (
	"github.com/zitadel/saml/pkg/provider/xml/md"
)

// Metadata, certificate, health and readiness routes; agreement of the
// published metadata with what the provider does (C04, C09, C10, C11, C15).

func init() {
	vrtHarnesses["HarnessMetadata"] = HarnessMetadata
	vrtHarnesses["HarnessC11Flags"] = HarnessC11Flags
}

// vrtEndpointConf: an endpoint left at its default or configured by path.
// Configuration validity (embedder contract): a configured path is no route
// template and does not collide with another route of the provider.
func vrtEndpointConf(name string, custom bool) *Endpoint {
	if !custom {
		return nil
	}
	path := vrtStr("ep." + name + ".path")
	vrtAssume(vrtMatches(path, "nobrace"))
	e := NewEndpoint(path)
	for _, other := range []string{"/healthz", "/ready", "/metadata", "/certificate", "/login", "/SSO", "/SLO", "/attribute"} {
		vrtAssume(e.Relative() != other)
	}
	return &e
}

func HarnessMetadata() {
	faults := vrtProp("C10") || vrtProp("C09")
	st := &vrtStore{noFaults: !faults, keyShapes: faults}
	st.respCert, st.respKey = vrtIdPKeyPair("idpkey")
	st.metaCert, st.metaKey = vrtIdPKeyPair("metakey")
	if !faults {
		vrtAssume(vrtBool("idpkey.cert.valid"))
		vrtAssume(vrtBool("idpkey.match"))
		vrtAssume(vrtBool("metakey.cert.valid"))
		vrtAssume(vrtBool("metakey.match"))
	}
	conf := &Config{
		IDPConfig: &IdentityProviderConfig{
			SignatureAlgorithm:     vrtRSASHA256,
			WantAuthRequestsSigned: vrtStr("conf.wantAuthRequestsSigned"),
			EncryptionAlgorithm:    vrtStr("conf.encryptionAlgorithm"),
		},
	}
	custom := vrtProp("C11")
	if custom {
		// one endpoint at a time is configured by path (bound profile)
		which := vrtChoice("ep.custom", 7)
		conf.IDPConfig.Endpoints = &EndpointConfig{
			SingleSignOn: vrtEndpointConf("sso", which == 1), SingleLogOut: vrtEndpointConf("slo", which == 2), Attribute: vrtEndpointConf("attribute", which == 3),
			Certificate: vrtEndpointConf("certificate", which == 4), Callback: vrtEndpointConf("callback", which == 5),
		}
		conf.Metadata = vrtEndpointConf("metadata", which == 6)
	}
	if vrtBool("conf.signMetadata") {
		conf.MetadataConfig = &MetadataConfig{SignatureAlgorithm: vrtStr("conf.metadataSignatureAlgorithm")}
		if !faults {
			// a usable configuration: one of the two algorithms the signer supports
			vrtAssume(vrtInSet(conf.MetadataConfig.SignatureAlgorithm, vrtRSASHA1, vrtRSASHA256))
		}
	}
	if vrtBool("conf.organisation") {
		conf.Organisation = &Organisation{Name: vrtStr("org.name"), DisplayName: vrtStr("org.displayName"), URL: vrtStr("org.url")}
	}
	if vrtBool("conf.contact") {
		conf.ContactPerson = &ContactPerson{Company: vrtStr("contact.company"), GivenName: vrtStr("contact.givenName"), EmailAddress: vrtStr("contact.email")}
	}
	vrtIssuer = vrtStaticIssuer
	issuer := vrtIssuer
	issuerFrom := StaticIssuer(issuer)
	forms := 3
	if vrtProp("C11") {
		forms = 4 // ... or derived from the Host of each request
	}
	hostIssuer := false
	switch vrtChoice("issuer.form", forms) {
	case 1:
		issuer = vrtIssuer + "/"
		issuerFrom = StaticIssuer(issuer)
	case 2:
		issuer = vrtIssuer + "/saml/"
		issuerFrom = StaticIssuer(issuer)
	case 3:
		hostIssuer = true
		host := vrtStr("req.host")
		vrtAssume(vrtMatches(host, "hosttoken"))
		vrtAssume(vrtMatches(vrtStr("hist.req.host"), "hosttoken"))
		issuer = "https://" + host
		issuerFrom = IssuerFromHost("")
	}
	vrtConfWantMD = conf.IDPConfig.WantAuthRequestsSigned
	p, err := NewProvider(st, issuerFrom, conf)
	if err != nil {
		vrtFail("harness.NewProvider-failed")
		return
	}
	base := vrtTrimSuffix(issuer, "/")
	if hostIssuer && !vrtBool("hist.none") {
		// history: the metadata was fetched under another host before (one provider, two issuers)
		if mp, ok := vrtRoutePathOf(p.HttpHandler(), "metadataHandle"); ok {
			hb := vrtNewRequest("hist.req", "GET", mp)
			vrtReqNoExtras(hb)
			vrtAssume(!vrtBool("hist.req.parsefail"))
			calls, faulted, seq, noFaults, keyShapes := st.calls, st.faulted, st.seq, st.noFaults, st.keyShapes
			st.calls, st.faulted, st.seq, st.noFaults, st.keyShapes = nil, false, nil, true, false
			vrtServe(p, hb)
			st.calls, st.faulted, st.seq, st.noFaults, st.keyShapes = calls, faulted, seq, noFaults, keyShapes
		}
	}

	route := vrtChoice("route", 4)
	var rb *vrtReq
	method := vrtStr("req.method")
	mdPath, okMD := vrtRoutePathOf(p.HttpHandler(), "metadataHandle")
	certPath, okCert := vrtRoutePathOf(p.HttpHandler(), "certificateHandleFunc")
	if !okMD || !okCert {
		vrtFail("C11.metadata-and-certificate-routes-exist")
		return
	}
	switch route {
	case 0:
		rb = vrtNewRequest("req", method, mdPath)
	case 1:
		rb = vrtNewRequest("req", method, certPath)
	case 2:
		rb = vrtNewRequest("req", method, "/healthz")
	default:
		rb = vrtNewRequest("req", method, "/ready")
	}
	rp, panicked := vrtServe(p, rb)
	if panicked {
		vrtOutcome("panic")
		if vrtProp("C09") || vrtProp("C10") {
			vrtPanicked(vrtPropID() + ".no-panic")
		}
		return
	}
	if vrtProp("C15") {
		vrtAssert("C15.no-write-to-provider-lifetime-state", vrtSharedWrites() == 0)
		// under every schedule and history the reply consists of documents this request produced
		vrtAssert("C15.reply-made-of-this-requests-own-documents", rp.Kind != "other" && rp.Docs+rp.Forms <= 1)
	}
	vrtOutcome(rp.Kind)

	switch route {
	case 0: // metadata
		ent := &md.EntityDescriptorType{}
		served := rp.Kind == "xml" && vrtXMLTo(rp.Body, ent)
		if served {
			vrtCover("metadata.served")
		}
		if (vrtProp("C18") || vrtProp("C11")) && served && conf.Organisation != nil {
			// organisation data made of legal (here: ASCII) XML characters comes back, through the
			// library's decoder, exactly as configured
			org := conf.Organisation
			if vrtLegalASCII(org.Name) && vrtLegalASCII(org.DisplayName) && vrtLegalASCII(org.URL) {
				// (the module publishes the organisation inside the IDPSSO descriptor)
				var o *md.OrganizationType
				if ent.IDPSSODescriptor != nil {
					o = ent.IDPSSODescriptor.Organization
				}
				vrtAssert("C18.organisation-data-is-what-was-configured", o != nil &&
					len(o.OrganizationName) == 1 && o.OrganizationName[0].Text == org.Name &&
					len(o.OrganizationDisplayName) == 1 && o.OrganizationDisplayName[0].Text == org.DisplayName &&
					len(o.OrganizationURL) == 1 && o.OrganizationURL[0].Text == org.URL)
			}
		}
		if vrtProp("C10") && st.faulted {
			vrtAssert("C10.fault-ends-in-error-reply", rp.Kind == "error" && rp.Code >= 500)
			vrtAssert("C10.no-signed-metadata-after-fault", !served || ent.Signature == nil)
		}
		if vrtProp("C18") {
			vrtC18Reply(rp, rp.Kind == "xml", served)
		}
		if vrtProp("C09") || vrtProp("C10") || vrtProp("C15") || vrtProp("C18") {
			return
		}
		if vrtProp("C11") {
			vrtAssert("C11.metadata-is-served-as-one-document", served && rp.Docs == 1)
		}
		if !served {
			return
		}
		if vrtProp("C04") && ent.Signature != nil {
			vrtCover("C04.signed-metadata")
			vrtFinding("C04.xmlsig-digests-text-unescaped", vrtC14NSensitive(ent))
			vrtAssert("C04.metadata-signature-verifies-on-the-wire", vrtEnvelopedValid(ent, ent.Signature, string(st.metaCert)))
		}
		if vrtProp("C11") {
			vrtC11Metadata(p, st, ent, base, mdPath)
		}
	case 1: // certificate
		if vrtProp("C10") && st.faulted {
			vrtAssert("C10.fault-ends-in-error-reply", rp.Kind == "error" && rp.Code >= 500)
		}
		if vrtProp("C11") || vrtProp("C04") {
			vrtAssert(vrtPropID()+".certificate-endpoint-serves-the-signing-certificate",
				rp.Kind == "pem" && rp.PemType == "CERTIFICATE" && rp.PemBytes == string(st.respCert))
		}
	default: // probes
		if vrtProp("C10") && st.faulted {
			vrtAssert("C10.fault-ends-in-error-reply", rp.Kind == "error" && rp.Code >= 500)
		}
		if vrtProp("C11") && !st.faulted {
			vrtAssert("C11.probe-answers-ok", rp.Kind == "json" && rp.Code == 200)
		}
	}
}

// vrtC11Metadata: the served document agrees with routes, issuer and certificate.
func vrtC11Metadata(p *Provider, st *vrtStore, ent *md.EntityDescriptorType, base, mdPath string) {
	h := p.HttpHandler()
	vrtAssert("C11.entityid-is-the-metadata-url", string(ent.EntityID) == base+mdPath)
	ok := ent.IDPSSODescriptor != nil && ent.AttributeAuthorityDescriptor != nil
	vrtAssert("C11.descriptors-present", ok)
	if !ok {
		return
	}
	idp, aa := ent.IDPSSODescriptor, ent.AttributeAuthorityDescriptor
	check := func(id string, locs []md.EndpointType, handler string) {
		path, found := vrtRoutePathOf(h, handler)
		vrtAssert("C11."+id+"-handler-is-routed", found)
		vrtAssert("C11."+id+"-is-advertised", len(locs) > 0)
		for i := range locs {
			vrtAssert("C11."+id+"-location-is-the-routed-path", locs[i].Location == base+path)
		}
		if found {
			vrtAssert("C11."+id+"-path-reaches-its-handler", vrtContains(vrtRouteHandler(h, path), handler))
		}
	}
	check("sso", idp.SingleSignOnService, "ssoHandleFunc")
	check("slo", idp.SingleLogoutService, "logoutHandleFunc")
	check("attribute-service", aa.AttributeService, "attributeQueryHandleFunc")
	// one signing certificate, the one assertions are signed with
	var signing []md.KeyDescriptorType
	for _, kd := range idp.KeyDescriptor {
		if kd.Use == md.KeyTypesSigning {
			signing = append(signing, kd)
		}
	}
	vrtAssert("C11.one-signing-keydescriptor", len(signing) == 1 && len(signing[0].KeyInfo.X509Data) == 1)
	if len(signing) == 1 && len(signing[0].KeyInfo.X509Data) == 1 {
		vrtAssert("C11.signing-keydescriptor-is-the-response-certificate", signing[0].KeyInfo.X509Data[0].X509Certificate == vrtB64(string(st.respCert)))
	}
	vrtAssert("C11.wantauthnrequestssigned-is-the-configured-value", idp.WantAuthnRequestsSigned == vrtConfWantMD)
	vrtAssert("C11.ids-are-ncnames", vrtMatches(ent.Id, "ncname_id") && vrtMatches(idp.Id, "ncname_id") && vrtMatches(aa.Id, "ncname_id"))
	vrtAssert("C11.ids-distinct", ent.Id != idp.Id && ent.Id != aa.Id && idp.Id != aa.Id)
}

var vrtConfWantMD string

// HarnessC11Flags: WantAuthnRequestsSigned is advertised as an xs:boolean true
// exactly when an unsigned request is in fact refused.
func HarnessC11Flags() {
	pf := vrtSSOProfile{name: "c11 flags"}
	st := &vrtStore{noFaults: true}
	st.respCert, st.respKey = vrtIdPKeyPair("idpkey")
	vrtAssume(vrtBool("idpkey.cert.valid"))
	vrtAssume(vrtBool("idpkey.match"))
	sp, doc, _ := vrtRegisteredSP(pf, 1)
	if sp == nil {
		vrtFail("harness.registration-failed")
		return
	}
	st.sp = sp
	st.created = &vrtAuthReq{id: vrtStr("created.id")}
	vrtNominalSigAlg = true
	p := vrtNewProviderWith(st, true) // WantAuthRequestsSigned symbolic
	method := vrtStr("req.method")
	rb := vrtNewRequest("req", method, vrtSSOPath)
	vrtSSORequest(rb, method, pf, string(doc.EntityID)) // an unsigned, otherwise acceptable request
	rp, panicked := vrtServe(p, rb)
	if panicked {
		vrtOutcome("panic")
		return
	}
	vrtOutcome(rp.Kind)
	accepted := st.count("CreateAuthRequest") > 0
	advertisedTrue := vrtXSTrue(vrtConfWant)
	if advertisedTrue {
		vrtCover("C11.advertised-true")
	}
	vrtAssert("C11.wantauthnrequestssigned-advertised-iff-unsigned-requests-refused", advertisedTrue == !accepted)
}
