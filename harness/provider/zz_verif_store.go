package provider

// The embedding application as the harnesses see it: a Storage whose every
// call may fail and whose successful results are arbitrary (symbolic) records.

import (
	"context"
	"crypto/rsa"
	"errors"
	"fmt"
	"io"
	"net/http"
	"net/http/httptest"
	"net/url"
	"strings"

	"github.com/zitadel/saml/pkg/provider/key"
	"github.com/zitadel/saml/pkg/provider/models"
	"github.com/zitadel/saml/pkg/provider/serviceprovider"
	"github.com/zitadel/saml/pkg/provider/xml/md"
	"github.com/zitadel/saml/pkg/provider/xml/samlp"
	"github.com/zitadel/saml/pkg/provider/xml/soap"
)

type vrtCall struct {
	Name string
	Args []string
	OK   bool
}

type vrtAuthReq struct {
	id, appID, relayState, acsURL, binding, authRequestID, issuer, destination, userID string
	done                                                                              bool
	doneCalls                                                                         int
}

func (a *vrtAuthReq) GetID() string                       { return a.id }
func (a *vrtAuthReq) GetApplicationID() string            { return a.appID }
func (a *vrtAuthReq) GetRelayState() string               { return a.relayState }
func (a *vrtAuthReq) GetAccessConsumerServiceURL() string { return a.acsURL }
func (a *vrtAuthReq) GetBindingType() string              { return a.binding }
func (a *vrtAuthReq) GetAuthRequestID() string            { return a.authRequestID }
func (a *vrtAuthReq) GetIssuer() string                   { return a.issuer }
func (a *vrtAuthReq) GetDestination() string              { return a.destination }
func (a *vrtAuthReq) GetUserID() string                   { return a.userID }
func (a *vrtAuthReq) Done() bool {
	if !vrtQuiet {
		a.doneCalls++
	}
	return a.done
}

var _ models.AuthRequestInt = &vrtAuthReq{}

// vrtUser is the user record the storage resolves.
type vrtUser struct {
	email, fullName, givenName, surname, userID, username string
	nCustom                                                int
	cName, cFriendly, cFormat                              []string
	cValues                                                [][]string
}

// vrtNewUser is an arbitrary user record. With full == false (bound profile of
// the properties that do not talk about the attribute list) only the e-mail
// address and the user name may be unset; the other standard attributes are set.
func vrtNewUser(prefix string, full bool, maxCustom, maxValues int) *vrtUser {
	return vrtNewUserMode(prefix, full, false, maxCustom, maxValues)
}

// vrtNewUserMode: with sparse == true (profile of the attribute-query filter)
// the standard attributes other than e-mail and user name are unset.
func vrtNewUserMode(prefix string, full, sparse bool, maxCustom, maxValues int) *vrtUser {
	u := &vrtUser{
		email: vrtStr(prefix + ".email"), fullName: vrtStr(prefix + ".fullName"), givenName: vrtStr(prefix + ".givenName"),
		surname: vrtStr(prefix + ".surname"), userID: vrtStr(prefix + ".userID"), username: vrtStr(prefix + ".username"),
	}
	if sparse && !full {
		u.fullName, u.givenName, u.surname, u.userID = "", "", "", ""
	} else if !full {
		vrtAssume(u.fullName != "")
		vrtAssume(u.givenName != "")
		vrtAssume(u.surname != "")
		vrtAssume(u.userID != "")
	}
	u.nCustom = vrtChoice(prefix+".custom#", maxCustom+1)
	for i := 0; i < u.nCustom; i++ {
		u.cName = append(u.cName, vrtStr(prefix+".custom.name", i))
		u.cFriendly = append(u.cFriendly, vrtStr(prefix+".custom.friendly", i))
		u.cFormat = append(u.cFormat, vrtStr(prefix+".custom.format", i))
		nv := vrtChoice(fmt.Sprintf("%s.custom.values#_%d", prefix, i), maxValues+1)
		var vals []string
		for j := 0; j < nv; j++ {
			vals = append(vals, vrtStr(prefix+".custom.value", i, j))
		}
		u.cValues = append(u.cValues, vals)
		// custom attribute names are the keys of a map: pairwise different
		for k := 0; k < i; k++ {
			vrtAssume(u.cName[k] != u.cName[i])
		}
	}
	return u
}

func (u *vrtUser) fill(s models.AttributeSetter) {
	s.SetEmail(u.email)
	s.SetFullName(u.fullName)
	s.SetGivenName(u.givenName)
	s.SetSurname(u.surname)
	s.SetUserID(u.userID)
	s.SetUsername(u.username)
	for i := 0; i < u.nCustom; i++ {
		s.SetCustomAttribute(u.cName[i], u.cFriendly[i], u.cFormat[i], u.cValues[i])
	}
}

// vrtStore implements Storage. Each method logs the call, may fail (a
// symbolic decision per call occurrence) and otherwise returns what the
// harness prepared.
type vrtStore struct {
	calls   []vrtCall
	faulted bool
	seq     map[string]int

	sp        *serviceprovider.ServiceProvider // what GetEntityByID resolves
	authReq   *vrtAuthReq                      // what AuthRequestByID resolves
	created   *vrtAuthReq                      // what CreateAuthRequest returns
	entityID  string                           // what GetEntityIDByAppID resolves
	user      *vrtUser
	respCert  []byte
	respKey   *rsa.PrivateKey
	keyShapes bool // the signing-key getters may also return degenerate records
	metaCert  []byte
	metaKey   *rsa.PrivateKey

	createdArgs []string
	createdReq  *samlp.AuthnRequestType
	noFaults    bool
}

func (s *vrtStore) fail(op string) bool {
	if vrtQuiet {
		return false
	}
	if s.seq == nil {
		s.seq = map[string]int{}
	}
	s.seq[op]++
	if s.noFaults {
		return false
	}
	if vrtBool(fmt.Sprintf("st.%s.fail_%d", op, s.seq[op])) {
		s.faulted = true
		return true
	}
	return false
}

func (s *vrtStore) log(name string, ok bool, args ...string) {
	if vrtQuiet {
		return
	}
	s.calls = append(s.calls, vrtCall{Name: name, Args: args, OK: ok})
}

func (s *vrtStore) count(name string) int {
	n := 0
	for _, c := range s.calls {
		if c.Name == name {
			n++
		}
	}
	return n
}

// okCall: some call of the operation succeeded
func (s *vrtStore) okCall(name string) bool {
	for _, c := range s.calls {
		if c.Name == name && c.OK {
			return true
		}
	}
	return false
}

func (s *vrtStore) GetCA(context.Context) (*key.CertificateAndKey, error) {
	return nil, errors.New("vrt: no CA")
}

func (s *vrtStore) keyRecord(op string, cert []byte, k *rsa.PrivateKey) (*key.CertificateAndKey, error) {
	if s.fail(op) {
		s.log(op, false)
		return nil, errors.New("vrt: storage fault in " + op)
	}
	if s.keyShapes && !vrtQuiet {
		switch vrtChoice(fmt.Sprintf("st.%s.shape_%d", op, s.seq[op]), 5) {
		case 1: // nil record
			s.faulted = true
			s.log(op, false)
			return nil, nil
		case 2: // key without certificate
			s.faulted = true
			s.log(op, false)
			return &key.CertificateAndKey{Key: k}, nil
		case 3: // certificate without key
			s.faulted = true
			s.log(op, false)
			return &key.CertificateAndKey{Certificate: cert}, nil
		case 4: // empty certificate
			s.faulted = true
			s.log(op, false)
			return &key.CertificateAndKey{Certificate: []byte{}, Key: k}, nil
		}
	}
	s.log(op, true)
	return &key.CertificateAndKey{Certificate: cert, Key: k}, nil
}

func (s *vrtStore) GetMetadataSigningKey(context.Context) (*key.CertificateAndKey, error) {
	return s.keyRecord("GetMetadataSigningKey", s.metaCert, s.metaKey)
}

func (s *vrtStore) GetResponseSigningKey(context.Context) (*key.CertificateAndKey, error) {
	return s.keyRecord("GetResponseSigningKey", s.respCert, s.respKey)
}

func (s *vrtStore) GetEntityByID(ctx context.Context, entityID string) (*serviceprovider.ServiceProvider, error) {
	if s.fail("GetEntityByID") || s.sp == nil {
		s.log("GetEntityByID", false, entityID)
		if s.sp != nil && vrtBool("st.GetEntityByID.recordWithError") {
			// an error does not oblige the storage to return a nil record
			return s.sp, errors.New("vrt: storage fault in GetEntityByID")
		}
		return nil, errors.New("vrt: unknown service provider")
	}
	s.log("GetEntityByID", true, entityID)
	return s.sp, nil
}

func (s *vrtStore) GetEntityIDByAppID(ctx context.Context, appID string) (string, error) {
	if s.fail("GetEntityIDByAppID") {
		s.log("GetEntityIDByAppID", false, appID)
		return "", errors.New("vrt: storage fault in GetEntityIDByAppID")
	}
	s.log("GetEntityIDByAppID", true, appID)
	return s.entityID, nil
}

func (s *vrtStore) CreateAuthRequest(ctx context.Context, req *samlp.AuthnRequestType, acsURL, binding, relayState, appID string) (models.AuthRequestInt, error) {
	if vrtQuiet {
		return s.created, nil
	}
	s.createdArgs = []string{acsURL, binding, relayState, appID}
	s.createdReq = req
	if s.fail("CreateAuthRequest") {
		s.log("CreateAuthRequest", false, acsURL, binding, relayState, appID)
		return nil, errors.New("vrt: storage fault in CreateAuthRequest")
	}
	s.log("CreateAuthRequest", true, acsURL, binding, relayState, appID)
	return s.created, nil
}

func (s *vrtStore) AuthRequestByID(ctx context.Context, id string) (models.AuthRequestInt, error) {
	if s.fail("AuthRequestByID") || s.authReq == nil {
		s.log("AuthRequestByID", false, id)
		return nil, errors.New("vrt: unknown auth request")
	}
	s.log("AuthRequestByID", true, id)
	return s.authReq, nil
}

func (s *vrtStore) SetUserinfoWithUserID(ctx context.Context, appID string, userinfo models.AttributeSetter, userID string, attributes []int) error {
	if s.fail("SetUserinfoWithUserID") {
		s.log("SetUserinfoWithUserID", false, appID, userID)
		if vrtBool("st.SetUserinfoWithUserID.partial") {
			// the backend failed after it had already written (part of) the record
			s.user.fill(userinfo)
		}
		return errors.New("vrt: storage fault in SetUserinfoWithUserID")
	}
	s.log("SetUserinfoWithUserID", true, appID, userID)
	s.user.fill(userinfo)
	return nil
}

func (s *vrtStore) SetUserinfoWithLoginName(ctx context.Context, userinfo models.AttributeSetter, loginName string, attributes []int) error {
	if s.fail("SetUserinfoWithLoginName") {
		s.log("SetUserinfoWithLoginName", false, loginName)
		return errors.New("vrt: storage fault in SetUserinfoWithLoginName")
	}
	s.log("SetUserinfoWithLoginName", true, loginName)
	s.user.fill(userinfo)
	return nil
}

func (s *vrtStore) Health(context.Context) error {
	if s.fail("Health") {
		s.log("Health", false)
		return errors.New("vrt: storage unhealthy")
	}
	s.log("Health", true)
	return nil
}

var _ Storage = &vrtStore{}

// ---- provider construction

const vrtStaticIssuer = "https://idp.example.test"

// vrtIssuer is the issuer in effect for the request under test: the static
// issuer, or "https://" + the request's Host when the provider derives it from
// the request (vrtHostIssuer).
var vrtIssuer = vrtStaticIssuer

// vrtHostIssuer: the next provider built by vrtNewProviderWith derives its
// issuer from the Host of each request (IssuerFromHost), so that one provider
// serves several issuers - the request under test under host req.host, an
// earlier request (vrtEarlierRequest) under hist.req.host.
var vrtHostIssuer bool

// vrtConfWant is the WantAuthRequestsSigned value of the provider under test.
var vrtConfWant string

// vrtNominalSigAlg: the configured signature algorithm is rsa-sha1 or
// rsa-sha256 instead of an arbitrary string.
var vrtNominalSigAlg bool

// vrtNewProvider builds a provider through the public constructor: static
// issuer, default endpoints, symbolic signature algorithm and signing wish.
func vrtNewProvider(st *vrtStore) *Provider { return vrtNewProviderWith(st, true) }

// vrtNewProviderWith: with symbolicWant == false the IdP does not ask for
// signed requests (nominal value of that dimension).
func vrtNewProviderWith(st *vrtStore, symbolicWant bool) *Provider {
	want := ""
	if symbolicWant {
		want = vrtStr("conf.wantAuthRequestsSigned")
	}
	vrtConfWant = want
	vrtConfWantMD = want
	alg := vrtStr("conf.signatureAlgorithm")
	if vrtNominalSigAlg {
		// nominal: one of the two algorithms the property names
		alg = vrtIteStr(vrtBool("conf.sha1"), vrtRSASHA1, vrtRSASHA256)
	}
	conf := &Config{
		IDPConfig: &IdentityProviderConfig{
			SignatureAlgorithm:     alg,
			WantAuthRequestsSigned: want,
		},
	}
	if vrtMetaSign {
		// the provider signs its metadata (with the algorithm it signs responses with)
		conf.MetadataConfig = &MetadataConfig{SignatureAlgorithm: alg}
		vrtMetaSign = false
	}
	issuer := StaticIssuer(vrtStaticIssuer)
	vrtIssuer = vrtStaticIssuer
	if vrtHostIssuer {
		vrtHostIssuer = false
		issuer = IssuerFromHost("")
		host := vrtStr("req.host")
		vrtAssume(vrtMatches(host, "hosttoken"))
		vrtAssume(vrtMatches(vrtStr("hist.req.host"), "hosttoken"))
		vrtIssuer = "https://" + host
	}
	p, err := NewProvider(st, issuer, conf)
	if err != nil {
		vrtFail("harness.NewProvider-failed")
		panic(vrtStop{"NewProvider failed"})
	}
	return p
}

// vrtMetaSign: the next provider built by vrtNewProviderWith signs its metadata.
var vrtMetaSign bool

// vrtEarlierRequest is the history dimension (DESIGN §9.6): before the request
// under test the same provider has served another client - kind 1: the completed
// login callback of another session (its own stored request, user and audience,
// all symbolic and independent of the request under test), kind 2: a metadata
// request. The earlier request is nominal (no faults, regular key material); the
// storage's bookkeeping is reset afterwards, so every assertion that follows
// speaks about the request under test alone. A reply that depends on the
// earlier client (a memo, a cache keyed too coarsely, a pooled object) then
// violates the assertions of the property it breaks, and the same two requests
// reproduce it natively.
func vrtEarlierRequest(p *Provider, st *vrtStore, kind int) {
	if kind == 0 {
		return
	}
	calls, faulted, seq := st.calls, st.faulted, st.seq
	authReq, user, entityID, noFaults, keyShapes := st.authReq, st.user, st.entityID, st.noFaults, st.keyShapes
	st.calls, st.faulted, st.seq = nil, false, nil
	st.noFaults, st.keyShapes = true, false
	switch kind {
	case 1:
		h := &vrtAuthReq{
			id: vrtStr("hist.authreq.id"), appID: vrtStr("hist.authreq.appID"), relayState: vrtStr("hist.authreq.relayState"),
			acsURL: vrtStr("hist.authreq.acsURL"), authRequestID: vrtStr("hist.authreq.requestID"), userID: vrtStr("hist.authreq.userID"),
			done: true, binding: PostBinding,
		}
		vrtAssume(vrtHasPrefix(h.acsURL, "https://"))
		vrtAssume(h.id != "")
		vrtAssume(h.relayState != "")
		if vrtBool("hist.authreq.redirect") {
			h.binding = RedirectBinding
		}
		st.authReq = h
		st.user = vrtNewUser("hist.user", false, 0, 0)
		vrtAssume(st.user.email != "")
		vrtAssume(st.user.username != "")
		// the earlier user has one custom attribute with one value (so that data of one
		// session surfacing in another is visible)
		st.user.nCustom = 1
		st.user.cName = []string{vrtStr("hist.user.custom.name")}
		st.user.cFriendly = []string{vrtStr("hist.user.custom.friendly")}
		st.user.cFormat = []string{vrtStr("hist.user.custom.format")}
		st.user.cValues = [][]string{{vrtStr("hist.user.custom.value")}}
		st.entityID = vrtStr("hist.audience")
		rb := vrtNewRequest("hist.req", "GET", "/login")
		vrtReqNoExtras(rb)
		vrtReqParam(rb, "id", true, h.id, false, "")
		vrtAssume(!vrtBool("hist.req.parsefail"))
		vrtServe(p, rb)
	case 2:
		rb := vrtNewRequest("hist.req", "GET", "/metadata")
		vrtReqNoExtras(rb)
		vrtAssume(!vrtBool("hist.req.parsefail"))
		vrtServe(p, rb)
	case 3:
		// the logout of another service provider, which has a SingleLogoutService
		sp := st.sp
		doc0 := &md.EntityDescriptorType{EntityID: md.EntityIDType(vrtStr("hist.sp.EntityID"))}
		vrtAssume(doc0.EntityID != "")
		loc := vrtStr("hist.slo.location")
		vrtAssume(vrtHasPrefix(loc, "https://"))
		doc0.SPSSODescriptor = &md.SPSSODescriptorType{SingleLogoutService: []md.EndpointType{{Binding: PostBinding, Location: loc}}}
		sp0, err := serviceprovider.NewServiceProvider("hist-app", &serviceprovider.Config{Metadata: []byte(vrtWireXML(doc0))},
			func(id string) string { return "https://login.example.test/login?authRequestID=" + id })
		if err != nil {
			panic(vrtStop{"registration of the earlier service provider failed"})
		}
		st.sp = sp0
		lr := &samlp.LogoutRequestType{Id: vrtStr("hist.logout.Id"), Version: "2.0"}
		vrtAssume(lr.Id != "")
		lr.Issuer = vrtIssuerOf(string(doc0.EntityID))
		lr.NameID = vrtIssuerOf("hist-user")
		lr.IssueInstant = vrtTimestamp("hist.logout.issueInstant", DefaultTimeFormat)
		okI, _ := vrtTimeParse(DefaultTimeFormat, lr.IssueInstant)
		vrtAssume(okI)
		rb := vrtNewRequest("hist.req", "POST", vrtSLOPath)
		vrtReqNoExtras(rb)
		vrtReqParam(rb, "SAMLRequest", false, "", true, vrtB64(vrtWireXML(lr)))
		vrtReqParam(rb, "RelayState", false, "", true, "hist-relay")
		vrtAssume(!vrtBool("hist.req.parsefail"))
		vrtServe(p, rb)
		st.sp = sp
	case 4:
		// an unsigned POST-binding AuthnRequest of the registered service provider
		a := &samlp.AuthnRequestType{Id: vrtStr("hist.authn.Id"), Version: "2.0"}
		vrtAssume(a.Id != "")
		a.Issuer = vrtIssuerOf(vrtEarlierEntityID)
		created := st.created
		st.created = &vrtAuthReq{id: "hist-created"}
		rb := vrtNewRequest("hist.req", "POST", vrtSSOPath)
		vrtReqNoExtras(rb)
		vrtReqParam(rb, "SAMLRequest", false, "", true, vrtB64(vrtWireXML(a)))
		vrtAssume(!vrtBool("hist.req.parsefail"))
		vrtServe(p, rb)
		st.created = created
	default:
		// an attribute query of the registered service provider
		env := &soap.AttributeQueryEnvelope{}
		aq := &samlp.AttributeQueryType{Id: vrtStr("hist.aq.Id"), Version: "2.0"}
		vrtAssume(aq.Id != "")
		aq.Issuer = vrtIssuerOf(vrtEarlierEntityID)
		aq.Subject.NameID = vrtIssuerOf("hist-user")
		env.Body.AttributeQuery = aq
		user := st.user
		st.user = vrtNewUserMode("hist.user", false, true, 0, 0)
		rb := vrtNewRequest("hist.req", "POST", vrtAttrPath)
		vrtReqBody(rb, vrtWireXML(env), false)
		vrtServe(p, rb)
		st.user = user
	}
	st.calls, st.faulted, st.seq = calls, faulted, seq
	st.authReq, st.user, st.entityID, st.noFaults, st.keyShapes = authReq, user, entityID, noFaults, keyShapes
}

// vrtEarlierEntityID: the issuer of the earlier SSO request / attribute query
// (the entity ID of the service provider registered in the harness).
var vrtEarlierEntityID string

// vrtServe sends one request through the public handler, recovering panics.
func vrtServe(p *Provider, rb *vrtReq) (vrtReply, bool) {
	w := vrtNewWriter()
	r := vrtReqBuild(rb)
	vrtEpochRoot = p
	vrtEpoch() // everything allocated before this point is provider-lifetime state
	var sw http.ResponseWriter = w
	if !vrtSymbolic() {
		// history and schedule the solver's model asks for (sync.Pool contract, DESIGN §9.6)
		if vrtBool("hist.abortedclient") {
			vrtHistoryAbortedClients(p, rb)
		}
		if vrtBool("sched.interleave") {
			sw = &vrtInterleavingWriter{ResponseWriter: w, hook: func() { vrtOtherClients(p, rb, false) }}
		}
	}
	panicked := vrtTry(func() { p.HttpHandler().ServeHTTP(sw, r) })
	if panicked {
		return vrtReply{Kind: "panic"}, true
	}
	return vrtObserve(w), false
}

// vrtQuiet: requests of other clients (history, interleaving) are served by a
// storage that answers nominally and keeps no bookkeeping.
var vrtQuiet bool

// vrtAbortingWriter is a client that goes away after accept bytes.
type vrtAbortingWriter struct {
	hdr    http.Header
	accept int
}

func (a *vrtAbortingWriter) Header() http.Header { return a.hdr }
func (a *vrtAbortingWriter) WriteHeader(int)     {}
func (a *vrtAbortingWriter) Write(b []byte) (int, error) {
	if len(b) <= a.accept {
		a.accept -= len(b)
		return len(b), nil
	}
	n := a.accept
	a.accept = 0
	return n, errors.New("vrt: client went away")
}

// vrtInterleavingWriter is a slow client: between the handler producing the
// bytes of its first write and the transport consuming them, other requests
// are served completely (same goroutine, so a sync.Pool hands them the objects
// this request has just put back).
type vrtInterleavingWriter struct {
	http.ResponseWriter
	hook func()
	done bool
}

func (i *vrtInterleavingWriter) Write(b []byte) (int, error) {
	if !i.done {
		i.done = true
		i.hook()
	}
	return i.ResponseWriter.Write(b)
}

// vrtOtherClients serves requests of other clients on the same provider: the
// request under test once more (fresh ids), then a junk GET and POST on every
// route. With abort the clients go away in the middle of the reply.
func vrtOtherClients(p *Provider, rb *vrtReq, abort bool) {
	vrtQuiet = true
	defer func() { vrtQuiet = false }()
	serve := func(r *http.Request, accept int) {
		var w http.ResponseWriter = httptest.NewRecorder()
		if abort {
			w = &vrtAbortingWriter{hdr: http.Header{}, accept: accept}
		}
		func() {
			defer func() {
				if r := recover(); r != nil {
					if s, ok := r.(vrtStop); ok {
						panic(s)
					}
				}
			}()
			p.HttpHandler().ServeHTTP(w, r)
		}()
	}
	for _, accept := range []int{0, 200} {
		serve(vrtReqBuild(rb), accept)
		for _, path := range vrtRoutePaths(p.HttpHandler()) {
			q := "SAMLRequest=AAAA&SAMLResponse=AAAA&id=vrt-other-client&RelayState=vrt-other-client"
			serve(&http.Request{Method: "GET", URL: &url.URL{Path: path, RawQuery: q}, Header: http.Header{}, Host: "other.example.test",
				Body: http.NoBody, Proto: "HTTP/1.1", ProtoMajor: 1, ProtoMinor: 1}, accept)
			serve(&http.Request{Method: "POST", URL: &url.URL{Path: path}, Header: http.Header{"Content-Type": {"application/x-www-form-urlencoded"}}, Host: "other.example.test",
				Body: io.NopCloser(strings.NewReader(q)), ContentLength: int64(len(q)), Proto: "HTTP/1.1", ProtoMajor: 1, ProtoMinor: 1}, accept)
		}
		if !abort {
			break
		}
	}
}

func vrtHistoryAbortedClients(p *Provider, rb *vrtReq) { vrtOtherClients(p, rb, true) }

// vrtSPMetadata is an arbitrary (lazy) service-provider metadata document
// run through the real registration API.
func vrtNewSP(name string) (*serviceprovider.ServiceProvider, *md.EntityDescriptorType, bool) {
	doc := &md.EntityDescriptorType{}
	vrtLazy(doc, name)
	wire := vrtWireXML(doc)
	var sp *serviceprovider.ServiceProvider
	var err error
	if vrtTry(func() {
		sp, err = serviceprovider.NewServiceProvider(vrtStr(name+".appID"), &serviceprovider.Config{Metadata: []byte(wire)}, func(id string) string { return "https://login.example.test/login?authRequestID=" + id })
	}) {
		return nil, doc, true
	}
	if err != nil {
		return nil, doc, false
	}
	return sp, doc, false
}
