package provider

import (
	"strconv"

	"github.com/zitadel/saml/pkg/provider/xml/saml"
	"github.com/zitadel/saml/pkg/provider/serviceprovider"
	"github.com/zitadel/saml/pkg/provider/xml"
	"github.com/zitadel/saml/pkg/provider/xml/md"
	"github.com/zitadel/saml/pkg/provider/xml/samlp"
)

// The single-sign-on route (C02, C05, C06, C08, C09, C10, C15, C16, C17).
//
// Symbolic: the HTTP request (every SAML parameter independently in query
// and/or body, any method, any further parameter), the SAMLRequest value (a
// string that decodes to nothing, or either encoding of an arbitrary
// AuthnRequest value), the registered service provider (absent, or arbitrary
// metadata run through the real registration API), the IdP's signing wish,
// the key material, every storage fault.

// A profile opens some dimensions of the input space and pins the others to a
// nominal value (DESIGN §3.3 "bound profiles"): the full product of all
// dimensions has ~10^6 paths, each profile a few thousand. What a profile pins
// is listed in the evidence as part of the bounds.
type vrtSSOProfile struct {
	name      string
	placement bool // parameter placement (query/body), encodings, undecodable input, form parse failure, further parameters
	signature bool // signing flags, SP key descriptors, SigAlg/Signature parameters, embedded signature
	acs       bool // the registered AssertionConsumerService list
	content   bool // the AuthnRequest content, registration of the issuer
	faults    bool // storage faults and key-material shapes
}

func init() {
	vrtHarnesses["HarnessSSODecode"] = HarnessSSODecode
	vrtHarnesses["HarnessSSOSig"] = HarnessSSOSig
	vrtHarnesses["HarnessSSOACS"] = HarnessSSOACS
	vrtHarnesses["HarnessSSOContent"] = HarnessSSOContent
	vrtHarnesses["HarnessSSOFaults"] = HarnessSSOFaults
	vrtHarnesses["HarnessSSOPlacementSig"] = HarnessSSOPlacementSig
	vrtHarnesses["HarnessSSOACSContent"] = HarnessSSOACSContent
	vrtHarnesses["HarnessSSOACSFaults"] = HarnessSSOACSFaults
}

// pairs: a late validation or persistence failure for every consumer-endpoint shape
func HarnessSSOACSContent() { vrtSSO(vrtSSOProfile{name: "acs x content", acs: true, content: true}) }
func HarnessSSOACSFaults()  { vrtSSO(vrtSSOProfile{name: "acs x faults", acs: true, faults: true}) }

func HarnessSSODecode()  { vrtSSO(vrtSSOProfile{name: "decode", placement: true}) }
func HarnessSSOSig()     { vrtSSO(vrtSSOProfile{name: "signature", signature: true}) }
func HarnessSSOACS()     { vrtSSO(vrtSSOProfile{name: "acs", acs: true}) }
func HarnessSSOContent() { vrtSSO(vrtSSOProfile{name: "content", content: true}) }
func HarnessSSOFaults()  { vrtSSO(vrtSSOProfile{name: "faults", faults: true}) }

// thorough tier: crossing bindings with signatures ("moving a message or its
// signature to the other binding")
func HarnessSSOPlacementSig() { vrtSSO(vrtSSOProfile{name: "placement x signature", placement: true, signature: true}) }

const vrtSSOPath = "/SSO"

// vrtParam is one SAML parameter as the client placed it.
type vrtParam struct {
	qHas, bHas bool
	qVal, bVal string
}

// form is what net/http's FormValue yields: body first, then query.
func (p vrtParam) form() string {
	return vrtIteStr(p.bHas, p.bVal, vrtIteStr(p.qHas, p.qVal, ""))
}

func vrtSymParam(name string) vrtParam {
	return vrtParam{qHas: vrtBool(name + ".q?"), qVal: vrtStr(name + ".q"), bHas: vrtBool(name + ".b?"), bVal: vrtStr(name + ".b")}
}

type vrtSSOInput struct {
	samlReq, enc, relay, sigAlg, sig vrtParam
	shape                            int // 0 undecodable, 1 base64(xml), 2 base64(deflate(xml))
	msgQ, msgB                       bool // the query / body copy of SAMLRequest is the message (else: garbage)
	authn                            *samlp.AuthnRequestType
	wire                             string // the XML document
	encoded                          string // the message as encoded for the wire
}

// vrtSSORequest builds the request and remembers what was put into it.
func vrtSSORequest(rb *vrtReq, method string, pf vrtSSOProfile, entityID string) *vrtSSOInput {
	in := &vrtSSOInput{authn: &samlp.AuthnRequestType{}}
	absent := vrtParam{}
	// the message
	if pf.content {
		vrtLazy(in.authn, "authn")
		if in.authn.Conditions != nil {
			in.authn.Conditions.NotBefore = vrtTimestamp("authn.notBefore", DefaultTimeFormat)
			in.authn.Conditions.NotOnOrAfter = vrtTimestamp("authn.notOnOrAfter", DefaultTimeFormat)
		}
	} else {
		in.authn.Id, in.authn.Version, in.authn.IssueInstant = vrtStr("authn.Id"), "2.0", vrtStr("authn.IssueInstant")
		vrtAssume(in.authn.Id != "")
		in.authn.Issuer = &saml.NameIDType{Text: entityID}
		if pf.acs {
			in.authn.ProtocolBinding = vrtStr("authn.ProtocolBinding")
		}
		in.authn.AssertionConsumerServiceURL = vrtStr("authn.AssertionConsumerServiceURL")
	}
	if pf.signature {
		sg := &samlp.AuthnRequestType{}
		vrtLazy(sg, "authnsig")
		in.authn.Signature = sg.Signature
	} else {
		in.authn.Signature = nil
	}
	in.wire = vrtWireXML(in.authn)
	if pf.placement {
		in.samlReq = vrtParam{qHas: vrtBool("SAMLRequest.q?"), bHas: vrtBool("SAMLRequest.b?")}
		in.enc, in.relay = vrtSymParam("SAMLEncoding"), vrtSymParam("RelayState")
		garbage := vrtStr("SAMLRequest.garbage")
		vrtAssume(vrtUndecodable(garbage))
		in.shape = vrtChoice("SAMLRequest.shape", 3)
		switch in.shape {
		case 0:
			in.samlReq.qVal, in.samlReq.bVal = garbage, garbage
		default:
			if in.shape == 1 {
				in.encoded = vrtB64(in.wire)
			} else {
				in.encoded = vrtB64(vrtDeflate(in.wire))
			}
			// each copy of the parameter is the message or garbage
			in.msgQ, in.msgB = vrtBool("SAMLRequest.q.isMessage"), vrtBool("SAMLRequest.b.isMessage")
			in.samlReq.qVal = vrtIteStr(in.msgQ, in.encoded, garbage)
			in.samlReq.bVal = vrtIteStr(in.msgB, in.encoded, garbage)
		}
	} else {
		// nominal placement: a Redirect-binding GET or a POST-binding POST, well-formed
		vrtReqNoExtras(rb)
		vrtAssume(!vrtBool("req.parsefail"))
		rs := vrtStr("RelayState")
		vrtAssume(rs != "") // nominal: a RelayState is sent (its absence belongs to the placement dimension)
		if vrtChoice("binding", 2) == 0 {
			in.shape, in.msgQ = 2, true
			in.encoded = vrtB64(vrtDeflate(in.wire))
			in.samlReq = vrtParam{qHas: true, qVal: in.encoded}
			in.relay = vrtParam{qHas: rs != "", qVal: rs}
			vrtAssume(method == "GET")
		} else {
			in.shape, in.msgB = 1, true
			in.encoded = vrtB64(in.wire)
			in.samlReq = vrtParam{bHas: true, bVal: in.encoded}
			in.relay = vrtParam{bHas: rs != "", bVal: rs}
			vrtAssume(method == "POST")
		}
		in.enc = absent
	}
	if pf.signature {
		in.sigAlg, in.sig = vrtSymParam("SigAlg"), vrtSymParam("Signature")
		// one shape of special interest: a well-formed DSA signature container
		// (base64 of the DER sequence of two positive integers)
		dsaShaped := vrtBool("Signature.dsaShaped")
		in.sig.qVal = vrtIteStr(dsaShaped, "MAYCAQECAQE=", in.sig.qVal)
		in.sig.bVal = vrtIteStr(dsaShaped, "MAYCAQECAQE=", in.sig.bVal)
	} else {
		in.sigAlg, in.sig = absent, absent
	}
	for _, kv := range []struct {
		k string
		p vrtParam
	}{{"SAMLRequest", in.samlReq}, {"SAMLEncoding", in.enc}, {"RelayState", in.relay}, {"SigAlg", in.sigAlg}, {"Signature", in.sig}} {
		vrtReqParam(rb, kv.k, kv.p.qHas, kv.p.qVal, kv.p.bHas, kv.p.bVal)
	}
	return in
}

// vrtRegisteredSP: the service provider the storage knows for the issuer.
func vrtRegisteredSP(pf vrtSSOProfile, maxACS int) (*serviceprovider.ServiceProvider, *md.EntityDescriptorType, bool) {
	if pf.content && !vrtBool("sp.registered") {
		return nil, nil, false
	}
	doc := &md.EntityDescriptorType{}
	switch {
	case pf.signature:
		// arbitrary key descriptors and signing flag
		lz := &md.EntityDescriptorType{}
		vrtLazy(lz, "sp")
		doc.EntityID = md.EntityIDType(vrtStr("sp.EntityID"))
		doc.SPSSODescriptor = &md.SPSSODescriptorType{}
		if lz.SPSSODescriptor != nil {
			doc.SPSSODescriptor.AuthnRequestsSigned = lz.SPSSODescriptor.AuthnRequestsSigned
			doc.SPSSODescriptor.KeyDescriptor = lz.SPSSODescriptor.KeyDescriptor
		}
	case pf.content:
		// arbitrary descriptor presence and entity ID, no keys
		doc.EntityID = md.EntityIDType(vrtStr("sp.EntityID"))
		if vrtBool("sp.SPSSODescriptor?") {
			doc.SPSSODescriptor = &md.SPSSODescriptorType{}
		}
	default:
		doc.EntityID = md.EntityIDType(vrtStr("sp.EntityID"))
		doc.SPSSODescriptor = &md.SPSSODescriptorType{}
	}
	if !pf.content {
		vrtAssume(doc.EntityID != "") // nominal: the registered entity has an ID
	}
	if doc.SPSSODescriptor != nil {
		if pf.acs {
			n := vrtChoice("acs#", maxACS+1)
			doc.SPSSODescriptor.AssertionConsumerService = vrtACSList("acs", n)
		} else {
			// nominal: one consumer endpoint with an answerable binding
			doc.SPSSODescriptor.AssertionConsumerService = vrtACSList("acs", 1)
			e0 := &doc.SPSSODescriptor.AssertionConsumerService[0]
			vrtAssume(vrtInSet(e0.Binding, PostBinding, RedirectBinding))
			e0.Index, e0.IsDefault = "0", ""
		}
		list := doc.SPSSODescriptor.AssertionConsumerService
		for i := range list {
			vrtAssume(vrtHasPrefix(list[i].Location, "https://")) // registered consumer URLs are absolute
			for j := range list {
				if i != j {
					// no registered URL followed by '?' is the beginning of another one
					// (keeps "which endpoint was this sent to" well-defined for the oracle)
					vrtAssume(!vrtHasPrefix(list[j].Location, list[i].Location+"?"))
				}
			}
		}
	}
	wire := vrtWireXML(doc)
	var sp *serviceprovider.ServiceProvider
	var err error
	if vrtTry(func() {
		sp, err = serviceprovider.NewServiceProvider(vrtStr("sp.appID"), &serviceprovider.Config{Metadata: []byte(wire)},
			func(id string) string { return "https://login.example.test/login?authRequestID=" + id })
	}) {
		return nil, doc, true
	}
	if err != nil {
		return nil, doc, false
	}
	return sp, doc, false
}

func vrtXSTrue(s string) bool { return s == "true" || s == "1" }

func vrtSSO(pf vrtSSOProfile) {
	st := &vrtStore{keyShapes: pf.faults, noFaults: !pf.faults}
	st.respCert, st.respKey = vrtIdPKeyPair("idpkey")
	if !pf.faults {
		// nominal key material: a valid certificate with its key
		vrtAssume(vrtBool("idpkey.cert.valid"))
		vrtAssume(vrtBool("idpkey.match"))
	}
	sp, doc, regPanicked := vrtRegisteredSP(pf, vrtBound("ACS entries of the service provider", 2, 3))
	if regPanicked {
		vrtOutcome("registration-panic")
		if vrtProp("C09") {
			vrtPanicked("C09.no-panic-in-registration")
		}
		return
	}
	st.sp = sp
	st.created = &vrtAuthReq{id: vrtStr("created.id")}
	vrtNominalSigAlg = !pf.faults
	// history (content profile, C06 / C15): nothing | an earlier AuthnRequest of the same service
	// provider, served under another host by a provider that derives its issuer from the request
	hist := 0
	if pf.content && !pf.acs && (vrtProp("C06") || vrtProp("C15")) && doc != nil && !vrtBool("hist.none") {
		hist = 4
		vrtHostIssuer = true
		vrtEarlierEntityID = string(doc.EntityID)
	}
	p := vrtNewProviderWith(st, pf.signature)
	vrtEarlierRequest(p, st, hist)

	method := vrtStr("req.method")
	rb := vrtNewRequest("req", method, vrtSSOPath)
	entityID := ""
	if doc != nil {
		entityID = string(doc.EntityID)
	}
	in := vrtSSORequest(rb, method, pf, entityID)
	rp, panicked := vrtServe(p, rb)

	if panicked {
		vrtOutcome("panic")
		// a handler that panics ends in neither of C08's two outcomes (net/http drops the connection)
		if vrtProp("C09") || vrtProp("C10") || vrtProp("C08") {
			vrtPanicked(vrtPropID() + ".no-panic")
		}
		return
	}
	if vrtProp("C15") {
		vrtAssert("C15.no-write-to-provider-lifetime-state", vrtSharedWrites() == 0)
		// under every schedule and history the reply consists of documents this request produced
		vrtAssert("C15.reply-made-of-this-requests-own-documents", rp.Kind != "other" && rp.Docs+rp.Forms <= 1)
	}

	persists := st.count("CreateAuthRequest")
	accepted := persists > 0 && st.calls[len(st.calls)-1].Name == "CreateAuthRequest" && st.calls[len(st.calls)-1].OK
	vrtOutcome(rp.Kind)
	if accepted {
		vrtOutcome("accepted")
		vrtCover("sso.accepted")
	} else {
		vrtCover("sso.rejected")
	}

	// what the handler saw, by net/http's rules
	redirectBinding := in.samlReq.qHas
	samlReq := in.samlReq.form()
	relay := in.relay.form()
	sigAlg := in.sigAlg.form()
	sig := in.sig.form()
	enc := in.enc.form()
	if enc == "" && redirectBinding {
		enc = xml.EncodingDeflate
	}
	usedMessage := in.shape != 0 && vrtIteStr(in.samlReq.bHas, vrtIteStr(in.msgB, "m", "g"), vrtIteStr(in.samlReq.qHas, vrtIteStr(in.msgQ, "m", "g"), "")) == "m"

	// where failure replies may go: the body, or a registered consumer URL
	var acs []md.IndexedEndpointType
	if sp != nil && doc.SPSSODescriptor != nil {
		acs = doc.SPSSODescriptor.AssertionConsumerService
	}
	target := ""
	switch rp.Kind {
	case "form":
		target = rp.Action
	case "redirect":
		if !accepted {
			for i := range acs {
				if vrtHasPrefix(rp.Location, acs[i].Location+"?") {
					target = acs[i].Location
				}
			}
		}
	}
	d := vrtDecodeResponse(rp, target)
	failureMsg := d.decoded && d.resp.Status.StatusCode.Value != StatusCodeSuccess

	if vrtProp("C08") {
		vrtAssert("C08.at-most-one-persist", persists <= 1)
		if accepted {
			vrtAssert("C08.accepted-means-303-to-login", rp.Kind == "redirect" && rp.Code == 303 && vrtSameURL(rp.Location, sp.LoginURL(st.created.id)))
			vrtAssert("C08.accepted-reply-carries-no-message", rp.Docs == 0 && rp.Forms == 0)
		} else {
			vrtAssert("C08.rejected-leaves-no-trace", persists == 0 || !st.calls[len(st.calls)-1].OK)
			vrtAssert("C08.rejected-gets-exactly-one-reply", rp.Kind == "error" || failureMsg)
			vrtAssert("C08.no-success-status-from-sso", !d.decoded || failureMsg)
			vrtAssert("C08.single-message", rp.Docs+rp.Forms <= 1 && rp.WriteHeaderCalls <= 1)
		}
	}

	if vrtProp("C02") {
		switch rp.Kind {
		case "form":
			ok := false
			for i := range acs {
				ok = vrtOr(ok, vrtSameURL(rp.Action, acs[i].Location))
			}
			vrtAssert("C02.sso-form-goes-to-registered-acs", ok)
		case "redirect":
			if !accepted {
				vrtAssert("C02.sso-redirect-goes-to-registered-acs", target != "")
			}
		}
		if d.decoded && d.resp.Destination != "" {
			ok := false
			for i := range acs {
				ok = vrtOr(ok, d.resp.Destination == acs[i].Location)
			}
			vrtAssert("C02.sso-destination-is-registered-acs", ok)
		}
		if persists > 0 {
			ok := false
			for i := range acs {
				ok = vrtOr(ok, vrtAnd(st.createdArgs[0] == acs[i].Location, st.createdArgs[1] == acs[i].Binding))
			}
			vrtAssert("C02.persisted-pair-is-one-registered-entry", ok)
			vrtAssert("C02.persisted-relaystate-is-the-requests", st.createdArgs[2] == relay)
		}
	}

	if vrtProp("C16") && persists > 0 && sp != nil {
		idx := make([]int, len(acs))
		for i := range acs {
			idx[i], _ = strconv.Atoi(acs[i].Index)
		}
		vrtC16Oracle("C16.e2e", acs, idx, in.authn.ProtocolBinding, st.createdArgs[0], st.createdArgs[1])
	}

	if vrtProp("C06") && accepted {
		vrtC06Assertions(st, in, doc, samlReq, enc, sigAlg, sig, usedMessage)
	}

	if vrtProp("C05") && accepted {
		vrtC05Assertions(st, in, doc, redirectBinding, samlReq, relay, sigAlg, sig)
	}

	if vrtProp("C10") && st.faulted {
		vrtAssert("C10.fault-ends-in-error-reply", rp.Kind == "error" && rp.Code >= 500 || failureMsg)
		vrtAssert("C10.no-acceptance-after-fault", !accepted)
		last := st.calls[len(st.calls)-1]
		vrtAssert("C10.nothing-persisted-after-the-fault", persists == 0 || last.Name == "CreateAuthRequest")
	}

	if vrtProp("C17") {
		if rp.Kind == "form" {
			vrtAssert("C17.fixed-html-template-three-plain-strings", rp.TemplateOK)
			vrtAssert("C17.relaystate-field-is-relaystate", rp.RelayState == relay)
			vrtAssert("C17.message-field-decodes", d.decoded)
		}
		vrtAssert("C17.one-form-at-most", rp.Forms <= 1 && (rp.Forms == 0 || rp.Kind == "form"))
	}
	if vrtProp("C18") {
		vrtC18Reply(rp, rp.Kind == "form" || rp.Kind == "xml" || rp.Kind == "redirect" && !accepted, d.decoded)
	}
}

// vrtC06Assertions: acceptance implies every validity condition, evaluated on the inputs.
func vrtC06Assertions(st *vrtStore, in *vrtSSOInput, doc *md.EntityDescriptorType, samlReq, enc, sigAlg, sig string, usedMessage bool) {
	a := in.authn
	vrtAssert("C06.samlrequest-not-empty", samlReq != "")
	vrtAssert("C06.sigalg-implies-signature", sigAlg == "" || sig != "")
	vrtAssert("C06.known-encoding", enc == "" || enc == xml.EncodingDeflate)
	vrtAssert("C06.message-decodes", usedMessage && (in.shape == 1 && enc == "" || in.shape == 2 && enc == xml.EncodingDeflate))
	vrtAssert("C06.issuer-present", a.Issuer != nil)
	vrtAssert("C06.sp-registered", st.sp != nil && doc != nil)
	if a.Issuer != nil && doc != nil {
		vrtAssert("C06.issuer-is-the-registered-entity", a.Issuer.Text != "" && a.Issuer.Text == string(doc.EntityID))
	}
	vrtAssert("C06.id-and-version-present", a.Id != "" && a.Version != "")
	vrtAssert("C06.destination-is-advertised", a.Destination == "" || a.Destination == vrtIssuer+vrtSSOPath)
	if a.Conditions != nil {
		nb, noa := a.Conditions.NotBefore, a.Conditions.NotOnOrAfter
		okB, tB := vrtTimeParse(DefaultTimeFormat, nb)
		okA, tA := vrtTimeParse(DefaultTimeFormat, noa)
		vrtAssert("C06.timestamps-parse", (nb == "" || okB) && (noa == "" || okA))
		vrtAssert("C06.now-inside-the-window", vrtSomeClockSatisfies(tB, nb != "", tA, noa != ""))
	}
}

// vrtC05Assertions: no acceptance without a verified signature when one is
// required, and never with a signature value that was not verified. In this
// harness the simulated SP signs nothing, so no signature can verify.
func vrtC05Assertions(st *vrtStore, in *vrtSSOInput, doc *md.EntityDescriptorType, redirectBinding bool, samlReq, relay, sigAlg, sig string) {
	spWants := doc != nil && doc.SPSSODescriptor != nil && vrtXSTrue(doc.SPSSODescriptor.AuthnRequestsSigned)
	idpWants := vrtXSTrue(vrtConfWant)
	vrtAssert("C05.signing-required-by-sp-metadata-is-enforced", !spWants)
	vrtAssert("C05.signing-required-by-idp-config-is-enforced", !idpWants)
	vrtAssert("C05.query-signature-value-never-ignored", sig == "")
	embedded := in.authn.Signature != nil && in.authn.Signature.SignatureValue.Text != ""
	vrtAssert("C05.embedded-signature-value-never-ignored", !embedded)
}
